"""C10 Jitted multivector code and the JIT-disabled build agree with the interpreter."""
import json
import os
import subprocess
import sys
import tempfile

from harness import core, gen, common

ID = 'C10'
LEAN_TARGETS = ['Props.C10']
TIE_A = ['nb_add_eq', 'nb_sub_eq', 'nb_mul_eq', 'nb_xor_eq', 'nb_or_eq', 'nb_invert_eq', 'nb_neg_eq', 'nb_pos_eq', 'nb_pow_eq', 'nb_call_eq', 'nb_reuse_eq']
OBLIGATIONS = [
    'C10.add_scalar', 'C10.sub_scalar', 'C10.mul_scalar', 'C10.or_scalar', 'C10.pow_zero', 'C10.pow_pos', 'C10.call_single_grade',
    'C10.call_two_distinct_grades', 'C10.mag2_same', 'C10.count_set_bits_fallback',
]
PARTIAL = ["numba's typing and lowering of the overload bodies is not modelled: each supported operation is compiled in a wrapper and compared with the interpreter "
           "(`.py_func`) and, where it has one, with the overload model"]
RULE = ("every operation the numba module documents as supported x operand kinds (multivector / int / float scalar, literal and runtime grades) x layouts "
        "(g3c, a mixed-signature layout; plus a degenerate and a custom-order layout in thorough) x dtypes (float64, int64); the two JIT configurations on a fixed catalogue. "
        "Non-trivial = non-scalar operand; distinct = distinct (operation, layout, dtype, operands)")
ASSUMPTIONS = ["float results may differ between configurations by summation order: compared within 1e-12 relative; integer results bit-identical"]


def jobs(tier, seed):
    return [dict(name='wrappers', jit=True, timeout=3000), dict(name='configs', jit=True, timeout=3000)]


def make_wrappers():
    """name -> (jitted function, kind). kind: 'u' unary mv, 'b' binary mv, 's' mv+scalar, 'rs' scalar+mv, 'g' mv+runtime grade, 'gg' two runtime grades,
    'L' layout+array"""
    import numba
    import numpy as np
    from clifford import MultiVector
    W = {}

    def reg(name, kind):
        def deco(f):
            W[name] = (numba.njit(f), kind)
            return f
        return deco

    reg('add', 'b')(lambda a, b: a + b)
    reg('sub', 'b')(lambda a, b: a - b)
    reg('mul', 'b')(lambda a, b: a * b)
    reg('xor', 'b')(lambda a, b: a ^ b)
    reg('or', 'b')(lambda a, b: a | b)
    reg('commutator', 'b')(lambda a, b: a.commutator(b))
    reg('anticommutator', 'b')(lambda a, b: a.anticommutator(b))
    reg('add_s', 's')(lambda a, s: a + s)
    reg('sub_s', 's')(lambda a, s: a - s)
    reg('mul_s', 's')(lambda a, s: a * s)
    reg('xor_s', 's')(lambda a, s: a ^ s)
    reg('or_s', 's')(lambda a, s: a | s)
    reg('div_s', 's')(lambda a, s: a / s)
    reg('radd_s', 's')(lambda a, s: s + a)
    reg('rsub_s', 's')(lambda a, s: s - a)
    reg('rmul_s', 's')(lambda a, s: s * a)
    reg('rxor_s', 's')(lambda a, s: s ^ a)
    reg('ror_s', 's')(lambda a, s: s | a)
    reg('pow0', 'u')(lambda a: a ** 0)
    reg('pow1', 'u')(lambda a: a ** 1)
    reg('pow3', 'u')(lambda a: a ** 3)
    reg('pow_rt', 'g')(lambda a, n: a ** n)
    reg('invert', 'u')(lambda a: ~a)
    reg('pos', 'u')(lambda a: +a)
    reg('neg', 'u')(lambda a: -a)
    reg('call_lit1', 'u')(lambda a: a(1))
    reg('call_lit02', 'u')(lambda a: a(0, 2))
    reg('call_lit9', 'u')(lambda a: a(9))
    reg('call_rt', 'g')(lambda a, g: a(g))
    reg('call_rt2', 'gg')(lambda a, g, h: a(g, h))
    reg('call_mixed', 'g')(lambda a, g: a(1, g))
    reg('mag2', 'u')(lambda a: a.mag2())
    reg('abs', 'u')(lambda a: abs(a))
    reg('normal', 'u')(lambda a: a.normal())
    reg('gradeInvol', 'u')(lambda a: a.gradeInvol())
    reg('conjugate', 'u')(lambda a: a.conjugate())
    reg('even', 'u')(lambda a: a.even)
    reg('odd', 'u')(lambda a: a.odd)
    reg('leftLaInv', 'u')(lambda a: a.leftLaInv())
    reg('hitzer_inverse', 'u')(lambda a: a.hitzer_inverse())
    reg('shirokov_inverse', 'u')(lambda a: a.shirokov_inverse())
    reg('value', 'u')(lambda a: a.value)
    reg('layout_dims', 'u')(lambda a: a.layout.dims)
    reg('layout_gaDims', 'u')(lambda a: a.layout.gaDims)
    reg('layout_sig', 'u')(lambda a: a.layout.sig)
    reg('layout_MultiVector', 'u')(lambda a: a.layout.MultiVector(a.value * 2))
    reg('ctor', 'L')(lambda l, v: MultiVector(l, v))
    reg('ctor_dtype', 'L')(lambda l, v: MultiVector(l, dtype=np.float64))
    reg('layout_ctor', 'L')(lambda l, v: l.MultiVector(v))
    reg('expr_up', 'u')(lambda a: a + 0.5 * (a * a) * a(1) - a(2) / 3.0)
    return W


def kind_of(x):
    import numpy as np
    return {'i': 0, 'u': 0, 'b': 0, 'f': 1, 'c': 2}[np.asarray(x).dtype.kind]


def same_result(rj, rp, exact):
    """(ok, detail). MultiVectors: same layout object, same dtype kind, same coefficients"""
    import numpy as np
    from clifford import MultiVector
    if isinstance(rp, MultiVector) or isinstance(rj, MultiVector):
        if not (isinstance(rp, MultiVector) and isinstance(rj, MultiVector)):
            return False, 'type'
        if rj.layout is not rp.layout and repr(rj.layout) != repr(rp.layout):
            # numba interns LayoutType by the layout's full description (signature, ids, blade order, names): two Layout objects with
            # identical descriptions share one type, and a jitted result may be attached to the twin. "Same layout" is read as "the layout
            # with the same full description" (DESIGN §8); anything else is a different algebra or a different naming and is a violation.
            return False, 'layout'
        if kind_of(rj.value) != kind_of(rp.value):
            return False, f'dtype kind {rj.value.dtype} vs {rp.value.dtype}'
        a, b = np.asarray(rj.value), np.asarray(rp.value)
    else:
        a, b = np.asarray(rj), np.asarray(rp)
        if a.shape != b.shape:
            return False, 'shape'
    if exact:
        return bool(np.array_equal(a, b)), 'values'
    scale = max(1.0, float(np.max(np.abs(b))) if b.size else 1.0)
    return bool(np.allclose(a, b, rtol=1e-11, atol=1e-12 * scale)), 'values'


INEXACT = {'normal', 'leftLaInv', 'hitzer_inverse', 'shirokov_inverse', 'abs', 'expr_up', 'div_s'}


def operands(rng, L, dt, invertible=False, small=False):
    import numpy as np
    from clifford import MultiVector
    N = L.gaDims
    if invertible:
        v = np.array(gen.int_mv(rng, N, 'sparse2', -2, 2))
        v[0] += 5
    elif small:
        # repeated products (powers up to 6): the 2^20-sized family would leave int64 / the exact range of binary64,
        # where the exact model and the machine arithmetic legitimately differ (false alarm corrected, DESIGN §8)
        v = np.array(gen.int_mv(rng, N, str(rng.choice(['dense', 'sparse2', 'half']))))
    else:
        v = np.array(gen.int_mv(rng, N))
    if dt == 'float64':
        v = v.astype(np.float64) / 4.0
    return MultiVector(L, v.astype(np.dtype(dt)))


def run_wrappers(res, layouts, rng, tier):
    import numpy as np
    import clifford as cf
    W = make_wrappers()
    ob = common.OpBatch()
    for lname, L in layouts:
        n = L.dims
        site0 = dict(layout=lname, sig=[int(s) for s in L.sig])
        for dt in ('float64', 'int64'):
            for name, (jf, kind) in W.items():
                reps = 2
                for r in range(reps):
                    inv = name in ('normal', 'leftLaInv', 'hitzer_inverse', 'shirokov_inverse')
                    if inv and dt == 'int64' and name in ('leftLaInv', 'shirokov_inverse'):
                        continue        # numba's linalg accepts floats only (scope: documented in DESIGN)
                    if name == 'hitzer_inverse' and n > 5:
                        continue
                    if name == 'leftLaInv' and L.gaDims > 32 and tier == 'quick':
                        continue
                    A = operands(rng, L, dt, invertible=inv, small=name.startswith('pow'))
                    B = operands(rng, L, dt)
                    if kind == 'u':
                        args = (A,)
                    elif kind == 'b':
                        args = (A, B)
                    elif kind in ('s', 'rs'):
                        sc = [3, -2, 2.5, -0.75][int(rng.integers(4))] if name != 'div_s' else [4, 0.5, -2.0][int(rng.integers(3))]
                        args = (A, sc)
                    elif kind == 'g':
                        args = (A, int(rng.integers(0, n + 1)) if name != 'pow_rt' else int(rng.choice([0, 1, 2, 3, 5, 6])))
                    elif kind == 'gg':
                        g = int(rng.integers(0, n + 1))
                        h = int(rng.integers(0, n + 1))
                        if r == 1:
                            h = g          # a repeated grade is always exercised (known finding: mask vs sum of projections)
                        args = (A, g, h)
                    else:
                        args = (L, A.value.copy())
                    site = dict(site0, op=name, dtype=dt)
                    key = (lname, name, dt, tuple(np.asarray(getattr(x, 'value', x)).tolist() if not isinstance(x, (int, float)) and not hasattr(x, 'gaDims')
                                                  else (x if isinstance(x, (int, float)) else 'L') for x in args))
                    nt = gen.nontrivial_mv(np.abs(A.value).tolist())
                    res.case(key, nontrivial=nt, sample=dict(site, args=[str(k)[:60] for k in key[3]]))
                    res.count('op_' + name)
                    repeated = (name == 'call_rt2' and args[1] == args[2]) or (name == 'call_mixed' and args[1] == 1)
                    try:
                        rp = jf.py_func(*args)
                    except Exception as e:
                        rp = e
                    try:
                        rj = jf(*args)
                    except Exception as e:
                        rj = e
                    inp = dict(site, args=[str(k)[:300] for k in key[3]])
                    if isinstance(rp, Exception) or isinstance(rj, Exception):
                        if isinstance(rp, Exception) and isinstance(rj, Exception):
                            continue
                        res.violate(f'jitted `{name}` and the interpreter disagree: one raises', inp, repr(rj)[:200], repr(rp)[:200], dict(site, kind='raise'))
                        continue
                    ok, why = same_result(rj, rp, exact=(name not in INEXACT))
                    if not ok:
                        res.violate(f'jitted `{name}` differs from the interpreter ({why})', inp, str(getattr(rj, 'value', rj))[:300], str(getattr(rp, 'value', rp))[:300],
                                    dict(site, kind=why, repeated_grade=bool(repeated)))
                    # overload model
                    sa = core.mvstr(common.exact_list(A.value))
                    tag = 'W_' + lname.replace('(', '_').replace(')', '').replace(',', '_')
                    if not isinstance(rj, Exception):
                        if name in ('add_s', 'radd_s'):
                            ob.op(tag, L, 'jadds', [sa, core.fstr(args[1])], rj.value, nontrivial=nt)
                        elif name == 'sub_s':
                            ob.op(tag, L, 'jsubs', [sa, core.fstr(args[1])], rj.value, nontrivial=nt)
                        elif name == 'rsub_s':
                            ob.op(tag, L, 'jrsubs', [core.fstr(args[1]), sa], rj.value, nontrivial=nt)
                        elif name in ('mul_s', 'xor_s', 'rmul_s', 'rxor_s'):
                            ob.op(tag, L, 'jmuls', [sa, core.fstr(args[1])], rj.value, nontrivial=nt)
                        elif name in ('or_s', 'ror_s'):
                            ob.op(tag, L, 'jors', [sa, core.fstr(args[1])], rj.value, nontrivial=nt)
                        elif name in ('pow0', 'pow1', 'pow3', 'pow_rt'):
                            k = {'pow0': 0, 'pow1': 1, 'pow3': 3}.get(name, args[1] if len(args) > 1 else 0)
                            ob.op(tag, L, 'jpow', [str(k), sa], rj.value, nontrivial=nt)
                        elif name in ('call_lit1', 'call_lit02', 'call_lit9', 'call_rt', 'call_rt2', 'call_mixed'):
                            gs = {'call_lit1': [1], 'call_lit02': [0, 2], 'call_lit9': [9]}.get(name)
                            if gs is None:
                                gs = [args[1]] if name == 'call_rt' else ([args[1], args[2]] if name == 'call_rt2' else [1, args[1]])
                            ob.op(tag, L, 'jcall', [core.ints(gs), sa], rj.value, nontrivial=nt)
    ob.run(res, 'overload-model')



def run_narrow_dtypes(res, rng):
    """addition / subtraction with a number on either side and negation on narrow and unsigned integer storage holding the extreme values of
    the dtype: the interpreter widens the multivector operand before it subtracts, so must the compiled overload (`s - mv` computed as `s + (-mv)`
    negates in the storage dtype first and wraps). Products are left out: there the interpreter itself stays in the narrow dtype and wraps
    (DESIGN §7, observed and not claimed)."""
    import numpy as np
    import numba
    from clifford import MultiVector
    from harness import real
    L = real.make_layout([1, 1, -1])
    ops = {'sub_s': lambda a, s: a - s, 'rsub_s': lambda a, s: s - a, 'radd_s': lambda a, s: s + a, 'neg': lambda a, s: -a}
    vals = {'int8': [1, 2, 0, 5, 0, -128, 7, 127], 'uint8': [1, 2, 0, 5, 0, 255, 7, 1], 'int32': [1, 2, 0, 5, 0, -2 ** 31, 7, 2 ** 31 - 1]}
    for dt, v in vals.items():
        A = MultiVector(L, np.array(v, dtype=dt))
        for name, f in ops.items():
            jf = numba.njit(f)
            for sc in ((3, 2.5) if name != 'neg' else (3,)):
                site = dict(layout='Cl(2,1)', sig=[1, 1, -1], op='narrow:' + name, dtype=dt)
                res.case(('narrow', name, dt, sc), nontrivial=True, sample=dict(site, scalar=sc))
                res.count('narrow_' + name)
                try:
                    rp = f(A, sc)
                except Exception as e:
                    rp = e
                try:
                    rj = jf(A, sc)
                except Exception as e:
                    rj = e
                inp = dict(site, M=v, scalar=sc)
                if isinstance(rp, Exception) or isinstance(rj, Exception):
                    if not (isinstance(rp, Exception) and isinstance(rj, Exception)):
                        res.violate(f'jitted `{name}` and the interpreter disagree on {dt} storage: one raises', inp, repr(rj)[:200], repr(rp)[:200], dict(site, kind='raise'))
                    continue
                ok, why = same_result(rj, rp, exact=True)
                if not ok:
                    res.violate(f'jitted `{name}` differs from the interpreter on {dt} storage holding the extreme values of the dtype ({why})', inp,
                                str(rj.value.tolist()), str(rp.value.tolist()), dict(site, kind=why))


def run_orders_and_views(res, rng):
    """(a) grade selection and the grade-dependent methods in jitted code on layouts whose blade order does NOT keep a grade's blades
    next to each other (bitmap order: grades 0,1,1,2,1,2,2,3); (b) a history on ONE multivector object: passed to jitted code with
    contiguous coefficients, `.value` re-pointed to a strided view of the same dtype, passed again (numba must re-type it)."""
    import numpy as np
    from harness import real
    W = make_wrappers()
    names = ['call_lit1', 'call_lit02', 'call_rt', 'call_rt2', 'call_mixed', 'gradeInvol', 'even', 'invert', 'add', 'mul']
    for lname, L in (('bitmap3', real.make_layout([1, 1, -1], order=list(range(8)))), ('bitmap4', real.make_layout([1, -1, 1, 0], order=list(range(16))))):
        n, N = L.dims, L.gaDims
        site0 = dict(layout=lname, sig=[int(x) for x in L.sig], order='bitmap')
        for dt in (np.int64, np.float64):
            for name in names:
                jf, kind = W[name]
                for r in range(2):
                    A = L.MultiVector(rng.integers(-9, 10, size=N).astype(dt))
                    B = L.MultiVector(rng.integers(-9, 10, size=N).astype(dt))
                    if kind == 'u':
                        args = (A,)
                    elif kind == 'b':
                        args = (A, B)
                    elif kind == 'g':
                        args = (A, int(rng.integers(0, n + 1)))
                    else:
                        g = int(rng.integers(0, n + 1))
                        h = int(rng.integers(0, n + 1))
                        if h == g:
                            h = (g + 1) % (n + 1)       # (the repeated grade is the recorded finding, exercised in run_wrappers)
                        args = (A, g, h)
                    if name == 'call_mixed' and args[1] == 1:
                        args = (A, 2)
                    site = dict(site0, op=name, dtype=np.dtype(dt).name)
                    res.case(('orders', lname, name, np.dtype(dt).name, A.value.tolist(), [a for a in args[1:] if isinstance(a, int)]), nontrivial=True)
                    res.count('orders_' + name)
                    rp, rj = jf.py_func(*args), jf(*args)
                    ok, why = same_result(rj, rp, exact=True)
                    if not ok:
                        res.violate(f'jitted `{name}` differs from the interpreter on a layout whose grades are not stored contiguously ({why})',
                                    dict(site, A=A.value.tolist(), args=[a for a in args[1:] if isinstance(a, int)]), str(getattr(rj, 'value', rj))[:300],
                                    str(getattr(rp, 'value', rp))[:300], dict(site, kind=why))
    # (b) the re-typed operand
    L = real.make_layout([1, 1, 1])
    N = L.gaDims
    for dt in (np.int64, np.float64):
        for name in ('add', 'gradeInvol', 'call_lit1', 'mul', 'neg'):
            jf, kind = W[name]
            table = rng.integers(-9, 10, size=(N, 3)).astype(dt)
            x = L.MultiVector(rng.integers(-9, 10, size=N).astype(dt))
            y = L.MultiVector(rng.integers(-9, 10, size=N).astype(dt))
            site = dict(layout='Cl(3)', op=name, dtype=np.dtype(dt).name, history='contiguous, then x.value = table[:, 1] (strided view), same object')
            res.case(('views', name, np.dtype(dt).name, table.tolist(), x.value.tolist()), nontrivial=True)
            res.count('views_' + name)
            args1 = (x,) if kind == 'u' else (x, y)
            r1j, r1p = jf(*args1), jf.py_func(*args1)
            x.value = table[:, 1]
            for view_name, setter in (('column', lambda: table[:, 1]), ('reversed', lambda: np.ascontiguousarray(table[:, 2])[::-1]), ('contiguous-again', lambda: table[:, 0].copy())):
                x.value = setter()
                want = x.value.copy()
                r2j, r2p = jf(*args1), jf.py_func(*args1)
                ok1, _ = same_result(r1j, r1p, exact=True)
                ok2, why = same_result(r2j, r2p, exact=True)
                if not (ok1 and ok2 and np.array_equal(x.value, want)):
                    res.violate(f'jitted `{name}` on a multivector whose coefficient array was re-pointed to a {view_name} view reads other coefficients than the interpreter',
                                dict(site, view=view_name, coefficients=want.tolist()), str(getattr(r2j, 'value', r2j))[:300], str(getattr(r2p, 'value', r2p))[:300],
                                dict(site, kind=why, view=view_name))
                    break


def run_power_sweep(res, layouts, rng):
    """jitted `a ** k` for every exponent 0..16 (all bit patterns of the exponent up to five bits) on tiny operands (two
    non-zero coefficients in {-1, 1}: every power stays far inside int64 and the exact range of binary64)"""
    import numpy as np
    from clifford import MultiVector
    W = make_wrappers()
    jf = W['pow_rt'][0]
    ob = common.OpBatch()
    for lname, L in layouts:
        N = L.gaDims
        tag = 'W_' + lname.replace('(', '_').replace(')', '').replace(',', '_')
        for dt in ('int64', 'float64'):
            for rep in range(2):
                v = np.zeros(N, dtype=np.int64)
                idx = rng.choice(N, size=2, replace=False)
                v[idx] = rng.choice([-1, 1], size=2)
                A = MultiVector(L, v.astype(np.dtype(dt)))
                sa = core.mvstr(common.exact_list(A.value))
                for k in range(0, 17):
                    site = dict(layout=lname, sig=[int(s_) for s_ in L.sig], op='pow_sweep', dtype=dt, k=k)
                    res.case(('pow_sweep', lname, dt, v.tolist(), k), nontrivial=True)
                    res.count('pow_sweep')
                    try:
                        rj, rp = jf(A, k), jf.py_func(A, k)
                    except Exception as e:
                        res.violate('jitted a**k raises on a small exponent', dict(site, A=v.tolist()), repr(e)[:200], None, dict(site, kind='raise'))
                        continue
                    ok, why = same_result(rj, rp, exact=True)
                    if not ok:
                        res.violate(f'jitted a**{k} differs from the interpreter ({why})', dict(site, A=v.tolist()), rj.value.tolist(), rp.value.tolist(),
                                    dict(site, kind=why))
                    ob.op(tag, L, 'jpow', [str(k), sa], rj.value, nontrivial=True)
    ob.run(res, 'overload-model-pow')


def run_twin_layouts(res, rng):
    """several layouts alive in one process that agree in the numbers of +, -, 0 signature entries (and in dimension) but differ in the
    arrangement of the signature, in the blade order or only in names: every jitted operation must use the tables of ITS operand's layout"""
    import numpy as np
    from clifford import MultiVector
    from harness import real
    W = make_wrappers()
    groups = [
        [('S(1,1,-1)', real.make_layout([1, 1, -1])), ('S(-1,1,1)', real.make_layout([-1, 1, 1])), ('S(1,-1,1)', real.make_layout([1, -1, 1])),
         ('S(1,1,-1)perm', real.make_layout([1, 1, -1], order=[0, 4, 2, 1, 3, 6, 5, 7])),
         ('S(1,1,-1)ids', real.make_layout([1, 1, -1], ids=['x', 'y', 't']))],
        [('S(0,1,1)', real.make_layout([0, 1, 1])), ('S(1,1,0)', real.make_layout([1, 1, 0]))],
    ]
    names = ['mul', 'or', 'xor', 'invert', 'call_lit1', 'mag2', 'gradeInvol', 'hitzer_inverse']
    names = [n_ for n_ in names if n_ in W]
    for grp in groups:
        for rnd in range(2):
            for lname, L in grp:
                N = L.gaDims
                for name in names:
                    jf, kind = W[name]
                    A = MultiVector(L, np.array(gen.int_mv(rng, N, 'dense', -3, 3), dtype=np.float64))
                    if name == 'hitzer_inverse':
                        A = A + 11.0
                    B = MultiVector(L, np.array(gen.int_mv(rng, N, 'dense', -3, 3), dtype=np.float64))
                    args = (A,) if kind == 'u' else (A, B)
                    site = dict(layout=lname, sig=[int(s_) for s_ in L.sig], op='twin_' + name, round=rnd)
                    res.case(('twin', lname, name, rnd, A.value.tolist(), B.value.tolist()), nontrivial=True)
                    res.count('twin_layouts')
                    try:
                        rj, rp = jf(*args), jf.py_func(*args)
                    except Exception as e:
                        res.violate(f'jitted `{name}` raises with several same-count layouts alive', dict(site, A=A.value.tolist()), repr(e)[:200], None,
                                    dict(site, kind='raise'))
                        continue
                    ok, why = same_result(rj, rp, exact=(name not in INEXACT))
                    if ok and hasattr(rj, 'layout') and rj.layout is not L and repr(rj.layout) != repr(L):
                        ok, why = False, 'result attached to a layout with another description'
                    if not ok:
                        res.violate(f'jitted `{name}` differs from the interpreter when layouts with equal (p,q,r) coexist ({why})',
                                    dict(site, A=A.value.tolist(), B=B.value.tolist()), str(getattr(rj, 'value', rj))[:300], str(getattr(rp, 'value', rp))[:300],
                                    dict(site, kind=why))

# ---------------------------------------------------------------- the two configurations on a fixed catalogue

def config_catalogue(seed):
    """deterministic catalogue of library-level results: list of (name, kind, flat list of numbers)"""
    import numpy as np
    import clifford as cf
    from clifford import MultiVector
    rng = gen.rng_for(seed, 'C10', 'configs-catalogue')
    out = []

    def put(name, x, exact):
        a = np.asarray(getattr(x, 'value', x))
        if a.dtype.kind == 'c':
            a = np.concatenate([a.real.ravel(), a.imag.ravel()])
        out.append((name, 'int' if a.dtype.kind in 'iub' else 'float', bool(exact), [float(v) if a.dtype.kind == 'f' else int(v) for v in a.ravel().tolist()]))
    from harness import real
    layouts = [('Cl21', real.make_layout([1, 1, -1])), ('Cl301', real.make_layout([0, 1, 1, 1])), ('perm', real.make_layout([1, -1], order=[3, 0, 2, 1])),
               ('g3c', real.predefined('g3c'))]
    for lname, L in layouts:
        N = L.gaDims
        for tab in ('gmt', 'omt', 'imt', 'lcmt'):
            t = getattr(L, tab)
            cnt, txt = real.table_text(t)
            out.append((f'{lname}.{tab}', 'int', True, [cnt, core.fnv64(txt) % (2 ** 53)]))
        put(f'{lname}.grades', L._basis_blade_order.grades, True)
        for dt in (np.int64, np.float64):
            a = np.array(gen.int_mv(rng, N)).astype(dt)
            b = np.array(gen.int_mv(rng, N)).astype(dt)
            if dt == np.float64:
                a, b = a / 8, b / 8
            A, B = MultiVector(L, a), MultiVector(L, b)
            tg = f'{lname}.{np.dtype(dt).name}'
            put(tg + '.gp', A * B, True)
            put(tg + '.op', A ^ B, True)
            put(tg + '.ip', A | B, True)
            put(tg + '.lc', A << B, True)
            put(tg + '.rev', ~A, True)
            put(tg + '.gi', A.gradeInvol(), True)
            put(tg + '.dual', A.dual(), True)
            put(tg + '.vee', A & B, True)
            put(tg + '.rc', A.right_complement(), True)
            put(tg + '.mag2', A.mag2(), True)
            put(tg + '.proj', A(1, 2), True)
            put(tg + '.pow3', A ** 3, True)
            put(tg + '.leftmat', L.get_left_gmt_matrix(A), True)
            put(tg + '.genfunc', L.gmt_func_generator(grades_a=[1], grades_b=[1, 2])(a, b), True)
        v = np.zeros(N)
        v[0] = 3
        v[1] = 1
        v[N - 1] = 0.5
        M = MultiVector(L, v)
        if L.dims <= 5 and 0 not in [int(s) for s in L.sig]:
            for nm, f in (('inv', lambda: M.inv()), ('hitzer', lambda: M.hitzer_inverse()), ('la', lambda: M.leftLaInv()),
                          ('exp', lambda: (0.25 * M(2) if L.dims >= 2 else M).exp())):
                try:
                    put(f'{lname}.{nm}', f(), False)
                except Exception as e:      # the same exception must come out of both configurations
                    out.append((f'{lname}.{nm}', 'raises:' + type(e).__name__, True, []))
    import clifford.tools.g3c as t
    x = 1.5 * t.e1 - 0.25 * t.e2 + 2 * t.e3
    X = t.fast_up(x)
    put('g3c.fast_up', X, True)
    put('g3c.fast_down', t.fast_down(X), False)
    put('g3c.fast_dual', t.fast_dual(X), True)
    R = t.generate_translation_rotor(0.5 * t.e1 + t.e2)
    put('g3c.apply_rotor', t.apply_rotor(X, R), True)
    put('g3c.meet', t.meet(X ^ t.fast_up(t.e1) ^ t.ninf, t.fast_up(t.e2) ^ t.fast_up(t.e3) ^ t.fast_up(x + t.e1) ^ t.ninf), False)
    from clifford._bit_helpers import count_set_bits
    put('count_set_bits', [int(count_set_bits(int(b))) for b in (0, 1, 5, 255, 2 ** 20 - 1, 2 ** 40 + 7)], True)
    return out


def main_catalogue():
    seed = int(sys.argv[1])
    json.dump(config_catalogue(seed), sys.stdout)


def run_configs(res, seed):
    import numpy as np
    here = config_catalogue(seed)       # this worker: JIT on
    cache = tempfile.mkdtemp(prefix='cliffverif_nb2_')
    try:
        env = core.worker_env(False, cache)
        p = subprocess.run([core.PY, '-c', 'from harness.props import C10; C10.main_catalogue()', str(seed)], cwd='/', env=env, capture_output=True, text=True, timeout=1500)
        if p.returncode != 0:
            raise RuntimeError('NUMBA_DISABLE_JIT catalogue process failed: ' + p.stderr[-1500:])
        txt = p.stdout[p.stdout.index('[['):]
        there = json.loads(txt)
    finally:
        import shutil
        shutil.rmtree(cache, ignore_errors=True)
    for (n1, k1, ex1, v1), (n2, k2, ex2, v2) in zip(here, there):
        res.case(('config', n1, tuple(v1)), nontrivial=True, sample=dict(entry=n1, kind=k1, n=len(v1)))
        res.count('config_' + k1)
        site = dict(entry=n1, op='configs')
        if n1 != n2 or len(v1) != len(v2):
            res.violate('the two JIT configurations produce differently shaped results', site, [n1, len(v1)], [n2, len(v2)], site)
            continue
        if k1 != k2:
            res.violate('the two JIT configurations produce different dtype kinds', site, k1, k2, dict(site, kind='dtype'))
            continue
        if k1 == 'int' or ex1:
            if v1 != v2:
                res.violate('NUMBA_DISABLE_JIT=1 and the compiled configuration give different results (exact data)', site, v1[:16], v2[:16], dict(site, kind='exact'))
        else:
            a, b = np.array(v1), np.array(v2)
            sc = max(1.0, float(np.max(np.abs(b))) if b.size else 1.0)
            if not np.allclose(a, b, rtol=1e-11, atol=1e-12 * sc):
                res.violate('NUMBA_DISABLE_JIT=1 and the compiled configuration differ beyond floating-point summation order', site, v1[:16], v2[:16], dict(site, kind='float'))


def run_job(job, tier, seed):
    from harness import real
    res = core.Result(job)
    rng = gen.rng_for(seed, 'C10', job)
    if job == 'wrappers':
        layouts = [('g3c', real.predefined('g3c')), ('Cl(2,1)', real.make_layout([1, 1, -1]))]
        if tier == 'thorough':
            layouts += [('pga', real.predefined('pga')), ('perm', real.make_layout([1, -1, 1], order=[0, 4, 2, 1, 3, 6, 5, 7]))]
        with common.guard(res, 'jitted wrappers', {}):
            run_wrappers(res, layouts, rng, tier)
        with common.guard(res, 'jitted power sweep', {}):
            run_power_sweep(res, layouts, rng)
        with common.guard(res, 'twin layouts', {}):
            run_twin_layouts(res, rng)
        with common.guard(res, 'blade orders / re-pointed coefficient arrays', {}):
            run_orders_and_views(res, rng)
        with common.guard(res, 'narrow / unsigned integer storage', {}):
            run_narrow_dtypes(res, rng)
    elif job == 'configs':
        run_configs(res, seed)
    else:
        raise ValueError(job)
    return res


def replay(obj):
    res = run_job('wrappers', 'quick', obj.get('seed', 0) if isinstance(obj.get('seed', 0), int) else 0)
    bad = [v for v in res.violations if core.match_known('C10', v) is None]
    for v in bad[:5]:
        print('still failing:', v['what'], v['site'])
    return 1 if bad else 0
