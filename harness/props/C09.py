"""C09 Blade subspace operations: factorise, basis, project, join, meet, isBlade."""
from fractions import Fraction

from harness import core, gen, common

ID = 'C09'
LEAN_TARGETS = ['Props.C09']
TIE_A = ['meth_project_eq']
OBLIGATIONS = ['C09.vector_product_split', 'C09.involuted_product_split', 'C09.vector_blade_wedge', 'C09.vector_blade_inner', 'C09.blade_vector_inner',
               'C09.project_plus_remainder', 'C09.one_plus_unit_vector_not_versor',
               'C09.project_blade_inverse', 'C09.project_formula', 'C09.project_idempotent', 'C09.project_lies_in_blade', 'C09.project_remainder_orthogonal',
               'C09.blade_is_product', 'C09.project_formula_oblique', 'C09.project_idempotent_oblique', 'C09.project_lies_in_blade_oblique',
               'C09.project_remainder_oblique']
PARTIAL = ['project: proved for a blade v1^...^vk whose spanning vectors orthogonalise (unitriangular change of basis, GS.Tri) to pairwise orthogonal NON-NULL vectors '
           '(blade_is_product + project_*_oblique); that such a basis exists for every non-null blade (possibly after reordering the vectors) is not formalised -- '
           'the harness runs the exact recursion on every case and checks the premise and the closed form on the implementation',
           'factorise / basis reassembly and the grade formulas of join and meet have no Lean theorem: '
           'decided by evaluation on the implementation with integer spanning vectors (conditioning-scaled tolerance)']
RULE = ("non-degenerate signatures with n<=5 (n<=6 thorough), every k, spanning vectors with small integer coordinates (well conditioned: Gram determinant of the blade "
        "bounded away from 0), shared/private factor constructions for join and meet. Non-trivial = k>=2; distinct = distinct (signature, spanning vectors)")
ASSUMPTIONS = ["float tolerance 1e-8 relative to the product of the vector norms involved"]


def jobs(tier, seed):
    return [dict(name='blades', jit=False, timeout=2400), dict(name='blades_jit', jit=True, timeout=2400)]


def vec(L, coords):
    E = L.basis_vectors_lst
    v = 0.0 * E[0]
    for c, e in zip(coords, E):
        v = v + float(c) * e
    return v


def form(sig, u, v):
    return sum(Fraction(s) * a * b for s, a, b in zip(sig, u, v))


def gram_schmidt(sig, C):
    """pairwise orthogonal rational vectors with the same flag of spans as the rows of C (unitriangular change of basis), or None when
    an intermediate vector is null"""
    out = []
    # from the last vector backwards (b_j = v_j - combination of the LATER b's), as in GS.Tri / C09.blade_is_product
    for row in reversed(C):
        v = [Fraction(int(c)) for c in row]
        for b in out:
            c = form(sig, v, b) / form(sig, b, b)
            v = [vi - c * bi for vi, bi in zip(v, b)]
        if form(sig, v, v) == 0:
            return None
        out.append(v)
    return list(reversed(out))


def wedge_all(vs):
    out = vs[0]
    for v in vs[1:]:
        out = out ^ v
    return out


def near(a, b, scale, tol=1e-8):
    import numpy as np
    a, b = np.asarray(a, dtype=float), np.asarray(b, dtype=float)
    return bool(np.all(np.isfinite(a)) and np.max(np.abs(a - b)) <= tol * max(1.0, scale))


def gen_blade(rng, L, k, tries=40):
    """k integer vectors whose wedge is a non-null blade; returns (coords, vectors, blade) or None"""
    import numpy as np
    n = L.dims
    for _ in range(tries):
        C = rng.integers(-3, 4, size=(k, n))
        vs = [vec(L, row) for row in C]
        B = wedge_all(vs)
        m2 = float(B.mag2())
        if abs(m2) >= 1.0:          # integer data: |mag2| >= 1 means non-null and well away from 0
            return C.tolist(), vs, B
    return None


def check_blade_ops(res, L, rng, tag, reps):
    import numpy as np
    n, N = L.dims, L.gaDims
    sig = [int(s) for s in L.sig]
    site = common.site_of(L)
    euclid = all(s == sig[0] for s in sig)
    for _ in range(reps):
        k = int(rng.integers(1, n + 1))
        g = gen_blade(rng, L, k)
        if g is None:
            continue
        C, vs, B = g
        inp = dict(site, k=k, vectors=C)
        scale = float(np.max(np.abs(B.value)))
        res.case(('blade', tag, k, str(C)), nontrivial=k >= 2, sample=dict(sig=sig, k=k, vectors=C))
        res.count(f'k{k}')
        with common.guard(res, 'isBlade/isVersor', site, inp):
            if not (B.isBlade() and B.isVersor()):
                res.violate('a non-null blade is not recognised by isBlade()/isVersor()', inp, [bool(B.isBlade()), bool(B.isVersor())], [True, True],
                            dict(site, op='isBlade', k=k))
        # factorise
        with common.guard(res, 'factorise', site, inp):
            factors, sc = B.factorise()
            prod = wedge_all(factors) * sc
            bad_shape = len(factors) != k or any(set(int(x) for x in f.grades()) != {1} for f in factors)
            nan = not np.all(np.isfinite(prod.value))
            if bad_shape or not near(prod.value, B.value, scale):
                # locate the documented hazard: an intermediate factor that is (nearly) null in a mixed signature
                res.violate('factorise(): scale * outer product of the factors is not the blade', inp, prod.value.tolist(), B.value.tolist(),
                            dict(site, op='factorise', k=k, mixed_signature=not euclid, nan=bool(nan)))
        # basis
        with common.guard(res, 'basis', site, inp):
            bs = B.basis()
            ok = len(bs) == k and all(near((b ^ B).value, 0 * B.value, scale * float(np.max(np.abs(b.value)) + 1)) for b in bs)
            if ok and k >= 1:
                W = wedge_all(bs)
                # proportional to B: W = lambda B with lambda != 0
                idx = int(np.argmax(np.abs(B.value)))
                lam = W.value[idx] / B.value[idx]
                ok = abs(lam) > 1e-9 and near(W.value, lam * B.value, scale * abs(lam))
            if not ok:
                res.violate('basis() does not return k vectors spanning the blade', inp, [b.value.tolist() for b in bs], None, dict(site, op='basis', k=k))
        # project
        with common.guard(res, 'project', site, inp):
            xi = [int(c) for c in rng.integers(-4, 5, size=n)]
            x = vec(L, xi)
            P = B.project(x)
            xs = float(np.max(np.abs(x.value))) + 1
            if not near(B.project(P).value, P.value, xs):
                res.violate('project is not idempotent', dict(inp, x=x.value.tolist()), B.project(P).value.tolist(), P.value.tolist(), dict(site, op='project-idempotent', k=k))
            if not near((P ^ B).value, 0 * B.value, xs * scale):
                res.violate('project(x) does not lie in the blade', dict(inp, x=x.value.tolist()), (P ^ B).value.tolist(), 0, dict(site, op='project-in', k=k))
            # the closed form of C09.project_formula: Gram-Schmidt (exact rationals) gives pairwise orthogonal b_i spanning the blade;
            # when every b_i is non-null, B is their geometric product and project(x) = sum_i (x.b_i / b_i.b_i) b_i
            xc = [Fraction(c) for c in xi]
            ortho = gram_schmidt(sig, C)
            if ortho is not None:
                res.count('project_formula')
                exp = [Fraction(0)] * n
                for b in ortho:
                    c = form(sig, xc, b) / form(sig, b, b)
                    exp = [e_ + c * bi for e_, bi in zip(exp, b)]
                expv = vec(L, [float(c) for c in exp])
                if not near(P.value, expv.value, xs):
                    res.violate('project(x) is not the orthogonal projection sum (x.b_i / b_i^2) b_i onto the factors (C09.project_formula)',
                                dict(inp, x=x.value.tolist()), P.value.tolist(), [core.fstr(c) for c in exp], dict(site, op='project-formula', k=k))
                gp = vec(L, [float(c) for c in ortho[0]])
                for b in ortho[1:]:
                    gp = gp * vec(L, [float(c) for c in b])
                if not near(gp.value, B.value, scale):
                    res.violate('the blade is not the geometric product of its orthogonalised factors (premise of C09.project_formula)', inp,
                                gp.value.tolist(), B.value.tolist(), dict(site, op='project-premise', k=k))
            rem = x - P
            for v in vs:
                if not near((rem | v).value, 0 * B.value, xs * (float(np.max(np.abs(v.value))) + 1)):
                    res.violate('the remainder x - project(x) is not orthogonal to the blade', dict(inp, x=x.value.tolist()), (rem | v).value.tolist(), 0,
                                dict(site, op='project-orthogonal', k=k))
                    break
    # not blades
    if n >= 2:
        e = L.basis_vectors_lst
        res.case(('notblade', tag))
        with common.guard(res, 'isBlade on non-blades', site):
            M = e[0] + (e[0] ^ e[1])
            if M.isBlade():
                res.violate('a sum of two different grades is reported as a blade', dict(site, M=M.value.tolist()), True, False, dict(site, op='isBlade-mixed'))
            # unit vectors of either sign of the square (v*v = +1 and v*v = -1), axis-aligned and not
            seen = set()
            for i in range(n):
                if sig[i] in (1, -1) and sig[i] not in seen:
                    seen.add(sig[i])
                    cands = [('basis', e[i])]
                    j = next((j for j in range(n) if j != i and sig[j] == sig[i]), None)
                    if j is not None:
                        cands.append(('3-4-5', (3 * e[i] + 4 * e[j]) / 5.0))
                    for kind, v in cands:
                        res.case(('1+v', tag, int(sig[i]), kind))
                        V = 1 + v
                        if V.isBlade() or V.isVersor():
                            res.violate('1 + v for a unit vector v is reported as a blade or versor', dict(site, v=v.value.tolist(), v_sq=int(sig[i]), kind=kind),
                                        [bool(V.isBlade()), bool(V.isVersor())], [False, False], dict(site, op='isVersor-1+v', v_sq=int(sig[i])))


def check_join_meet(res, L, rng, tag, reps):
    import numpy as np
    n = L.dims
    site = common.site_of(L)
    sig = [int(s) for s in L.sig]
    euclid = all(s == sig[0] for s in sig)
    for _ in range(reps):
        ns = int(rng.integers(0, max(1, n - 1)))
        na = int(rng.integers(0 if ns else 1, n - ns + 1))
        nb = int(rng.integers(0 if ns else 1, n - ns - na + 1)) if n - ns - na >= (0 if ns else 1) else 0
        if ns + na == 0 or ns + nb == 0 or ns + na + nb > n:
            continue
        g = gen_blade(rng, L, ns + na + nb)
        if g is None:
            continue
        C, vs, full = g
        shared, pa, pb = vs[:ns], vs[ns:ns + na], vs[ns + na:]
        A = wedge_all(shared + pa)
        B = wedge_all(shared + pb)
        if abs(float(A.mag2())) < 1 or abs(float(B.mag2())) < 1 or (ns and abs(float(wedge_all(shared).mag2())) < 1):
            continue
        inp = dict(site, shared=C[:ns], privA=C[ns:ns + na], privB=C[ns + na:])
        res.case(('joinmeet', tag, str(C), ns, na, nb), nontrivial=True, sample=dict(sig=sig, shared=ns, privA=na, privB=nb))
        res.count(f'shared{ns}')
        sc = float(np.max(np.abs(full.value))) + 1
        with common.guard(res, 'join', site, inp):
            J = A.join(B)
            gj = set(int(x) for x in J.grades(eps=1e-9))
            ok = gj == {ns + na + nb}
            if ok:
                for v in vs:
                    if not near((v ^ J).value, 0 * J.value, float(np.max(np.abs(v.value))) * float(np.max(np.abs(J.value))) + 1, 1e-7):
                        ok = False
            if not ok:
                res.violate('join is not a blade of grade dim(span A + span B) containing every vector of A and B', inp, [sorted(gj), J.value.tolist()], ns + na + nb,
                            dict(site, op='join', shared=ns, mixed_signature=not euclid))
        with common.guard(res, 'meet', site, inp):
            M = A.meet(B)
            gm = set(int(x) for x in M.grades(eps=1e-9 * sc))
            ok = gm == ({ns} if ns or True else {0})
            if ok and ns:
                for v in shared:
                    pass
                # contained in both: every shared vector wedges M to 0 only if M is proportional to the shared blade
                S = wedge_all(shared)
                idx = int(np.argmax(np.abs(S.value)))
                lam = M.value[idx] / S.value[idx]
                ok = abs(lam) > 1e-12 and near(M.value, lam * S.value, float(np.max(np.abs(M.value))) + 1e-12, 1e-6)
            if not ok:
                res.violate('meet is not a blade of grade dim A + dim B - grade(join) contained in both', inp, [sorted(gm), M.value.tolist()], ns,
                            dict(site, op='meet', shared=ns, mixed_signature=not euclid))


def run_job(job, tier, seed):
    from harness import real
    res = core.Result(job)
    rng = gen.rng_for(seed, 'C09', job)
    if job == 'blades':
        sigs = [[1, 1], [1, 1, 1], [1, 1, 1, 1], [1, 1, -1], [1, -1, -1, -1], [1, 1, 1, 1, -1], [-1, -1, -1], [1, 1, -1, -1], [1, 1, 1, 1, 1]]
        if tier == 'thorough':
            sigs += [[1] * 6, [1, 1, 1, -1, -1, -1]]
        for i, s in enumerate(sigs):
            L = real.make_layout(s)
            common.gcall(res, check_blade_ops, L, rng, f"B{i}", 6 if tier == 'quick' else 25)
            common.gcall(res, check_join_meet, L, rng, f"B{i}", 6 if tier == 'quick' else 25)
        # the same operations on layouts whose basis-vector ids are not 1..n in order (firstIdx = 0, permuted integers, strings) and on a
        # blade order that is not the default one: nothing in the property depends on how the vectors are called or where blades are stored
        alt = [real.make_layout([1, 1, 1], first=0), real.make_layout([1, 1, 1, 1], first=0), real.make_layout([1, 1, -1, 1], ids=[2, 4, 1, 3]),
               real.make_layout([1, 1, 1], ids=['x', 'y', 'z']), real.make_layout([1, 1, 1, 1, 1], first=3),
               real.make_layout([1, 1, 1], order=[0, 4, 2, 1, 6, 5, 3, 7])]
        for i, L in enumerate(alt):
            common.gcall(res, check_blade_ops, L, rng, f"A{i}", 4 if tier == 'quick' else 12)
            common.gcall(res, check_join_meet, L, rng, f"A{i}", 3 if tier == 'quick' else 12)
        # the recorded finding, deterministically: Cl(2,2), spanning vectors (1,0,-1,0), (0,-3,-2,-3)
        import numpy as np
        L = real.make_layout([1, 1, -1, -1])
        vs = [vec(L, [1, 0, -1, 0]), vec(L, [0, -3, -2, -3])]
        B = wedge_all(vs)
        res.case(('factorise-known', 'Cl(2,2)'))
        with common.guard(res, 'factorise', common.site_of(L)):
            factors, sc = B.factorise()
            prod = wedge_all(factors) * sc
            if not near(prod.value, B.value, float(np.max(np.abs(B.value)))):
                res.violate('factorise(): scale * outer product of the factors is not the blade', dict(common.site_of(L), vectors=[[1, 0, -1, 0], [0, -3, -2, -3]]),
                            prod.value.tolist(), B.value.tolist(), dict(common.site_of(L), op='factorise', k=2, mixed_signature=True,
                                                                       nan=bool(not np.all(np.isfinite(prod.value)))))
    elif job == 'blades_jit':
        for i, s in enumerate([[1, 1, 1], [1, 1, 1, 1, -1]]):
            L = real.make_layout(s)
            common.gcall(res, check_blade_ops, L, rng, f"J{i}", 4)
            common.gcall(res, check_join_meet, L, rng, f"J{i}", 4)
    else:
        raise ValueError(job)
    return res


def replay(obj):
    from harness import real
    site = obj.get('site', {})
    L = real.make_layout(site['sig'])
    res = core.Result('replay')
    rng = gen.rng_for(0, 'replay')
    check_blade_ops(res, L, rng, 'replay', 20)
    check_join_meet(res, L, rng, 'replay', 20)
    bad = [v for v in res.violations if core.match_known('C09', v) is None]
    for v in bad[:5]:
        print('still failing:', v['what'], v['site'])
    return 1 if bad else 0
