"""C11 Linear transformations: outermorphisms, function/rotor matrices, basis maps."""
from fractions import Fraction

from harness import core, gen, common

ID = 'C11'
LEAN_TARGETS = ['Props.C11']
OBLIGATIONS = [
    'C11.adjoint_dot', 'C11.compose', 'C11.from_function_on_blades', 'C11.from_function_linear', 'C11.apply_add', 'C11.apply_smul',
    'C11.from_rotor_linear', 'C11.outer_wedge', 'C11.outer_one', 'C11.outer_vector', 'C11.outer_add', 'C11.outer_smul', 'C11.outer_grade', 'C11.outer_compose', 'C11.outer_pseudoscalar', 'C11.executable_outermorphism_is_omap',
               'C11.outermorphism_on_vectors', 'C11.outermorphism_is_exterior_functor',
]
PENDING = []
PARTIAL = []
RULE = ("source/destination layouts of dimensions 0..4 (equal or different, any signatures incl. degenerate, custom orders), integer vector matrices of every shape, "
        "integer multivectors; generating functions: random linear maps, rotor sandwiches; non-trivial = non-zero matrix and non-scalar operand; "
        "distinct = distinct (layouts, matrix, operands) text")
ASSUMPTIONS = ["int64 arithmetic does not overflow on the generated magnitudes"]


def jobs(tier, seed):
    return [dict(name='transform', jit=False, timeout=2400), dict(name='transform_jit', jit=True, timeout=2400)]


def det_int(m):
    """exact determinant of a small integer matrix"""
    n = len(m)
    if n == 0:
        return 1
    M = [[Fraction(x) for x in row] for row in m]
    d = Fraction(1)
    for c in range(n):
        p = next((r for r in range(c, n) if M[r][c] != 0), None)
        if p is None:
            return 0
        if p != c:
            M[c], M[p] = M[p], M[c]
            d = -d
        d *= M[c][c]
        for r in range(c + 1, n):
            f = M[r][c] / M[c][c]
            M[r] = [a - f * b for a, b in zip(M[r], M[c])]
    return int(d)


def check_outermorphism(res, Ls, Ld, rng, tag, ob, reps):
    import numpy as np
    from clifford import transformations as tf, MultiVector
    S, D = Ls.dims, Ld.dims
    site = dict(src=common.site_of(Ls), dst=common.site_of(Ld))
    m = rng.integers(-3, 4, size=(D, S))
    inp = dict(site, matrix=m.tolist())
    f = tf.OutermorphismMatrix(m, Ls, Ld)
    Es, Ed = Ls.basis_vectors_lst, Ld.basis_vectors_lst
    gs, gd = np.array(common.grades_of(Ls)), np.array(common.grades_of(Ld))
    ones = common.mv(Ls, [1 if b == 0 else 0 for b in Ls._basis_blade_order.index_to_bitmap.tolist()])
    oned = common.mv(Ld, [1 if b == 0 else 0 for b in Ld._basis_blade_order.index_to_bitmap.tolist()])
    res.case(('outer', tag, m.tolist()), nontrivial=bool(m.any()), sample=dict(S=S, D=D, matrix=m.tolist()))
    # the model builds the same full matrix
    ob.layout(tag + 's', Ls)
    ob.layout(tag + 'd', Ld)
    full = np.asarray(f._matrix)
    cols = ";".join(core.mvstr(common.exact_list(full[:, c])) for c in range(full.shape[1]))
    if D > 0 and S > 0:
        ob.raw(f"OUTER {tag}s {tag}d " + ";".join(core.mvstr([Fraction(int(x)) for x in row]) for row in m.tolist()), cols,
               'full outermorphism matrix differs from the model of _make_outermorphism', key=('outer-model', tag, str(m.tolist())), site=dict(site, op='outer-matrix'))
    # f(1) = 1, vectors map by m
    if not common.eq(f(ones), oned):
        res.violate('outermorphism does not map 1 to 1', inp, f(ones).value.tolist(), None, dict(site, op='outer-one'))
    for j in range(S):
        exp = 0 * oned
        for i in range(D):
            exp = exp + int(m[i, j]) * Ed[i]
        if not common.eq(f(Es[j]), exp):
            res.violate('outermorphism does not map the vector with coordinates x to m@x', dict(inp, j=j), f(Es[j]).value.tolist(), exp.value.tolist(), dict(site, op='outer-vector'))
    for _ in range(reps):
        A = common.mv(Ls, gen.int_mv(rng, Ls.gaDims))
        B = common.mv(Ls, gen.int_mv(rng, Ls.gaDims))
        inp2 = dict(inp, A=A.value.tolist(), B=B.value.tolist())
        nt = gen.nontrivial_mv(A.value.tolist()) and bool(m.any())
        res.case(('outer-laws', tag, m.tolist(), A.value.tolist(), B.value.tolist()), nontrivial=nt)
        if not common.eq(f(A ^ B), f(A) ^ f(B)):
            res.violate('f(A^B) != f(A)^f(B)', inp2, f(A ^ B).value.tolist(), (f(A) ^ f(B)).value.tolist(), dict(site, op='outer-wedge'))
        if not (common.eq(f(A + B), f(A) + f(B)) and common.eq(f(3 * A), 3 * f(A))):
            res.violate('outermorphism is not linear', inp2, None, None, dict(site, op='outer-linear'))
        for g in range(max(S, D) + 1):
            Ag = common.mv(Ls, np.where(gs == g, A.value, 0))
            img = f(Ag)
            if any(int(x) != g for x in gd[np.nonzero(img.value)[0]]):
                res.violate('outermorphism does not preserve grades', dict(inp2, g=g), img.value.tolist(), None, dict(site, op='outer-grade'))
    if S == D:
        Is = common.mv(Ls, [1 if b == (2 ** S - 1) else 0 for b in Ls._basis_blade_order.index_to_bitmap.tolist()])
        Id = common.mv(Ld, [1 if b == (2 ** D - 1) else 0 for b in Ld._basis_blade_order.index_to_bitmap.tolist()])
        res.case(('outer-det', tag, m.tolist()))
        if not common.eq(f(Is), det_int(m.tolist()) * Id):
            res.violate('f(I) != det(m) I', inp, f(Is).value.tolist(), det_int(m.tolist()), dict(site, op='outer-det'))
    return f, m


def check_compose(res, L1, L2, L3, rng, tag):
    import numpy as np
    from clifford import transformations as tf
    m1 = rng.integers(-3, 4, size=(L2.dims, L1.dims))
    m2 = rng.integers(-3, 4, size=(L3.dims, L2.dims))
    f1, f2 = tf.OutermorphismMatrix(m1, L1, L2), tf.OutermorphismMatrix(m2, L2, L3)
    f21 = tf.OutermorphismMatrix(m2 @ m1, L1, L3)
    A = common.mv(L1, gen.int_mv(rng, L1.gaDims))
    res.case(('compose', tag, m1.tolist(), m2.tolist(), A.value.tolist()), nontrivial=gen.nontrivial_mv(A.value.tolist()))
    if not common.eq(f2(f1(A)), f21(A)):
        res.violate('f_m2(f_m1(A)) != f_(m2@m1)(A)', dict(m1=m1.tolist(), m2=m2.tolist(), A=A.value.tolist(), sigs=[common.site_of(L)['sig'] for L in (L1, L2, L3)]),
                    f2(f1(A)).value.tolist(), f21(A).value.tolist(), dict(src=common.site_of(L1), dst=common.site_of(L3), op='outer-compose'))


def check_linear_matrix(res, Ls, Ld, rng, tag):
    import numpy as np
    from clifford import transformations as tf, MultiVector
    site = dict(src=common.site_of(Ls), dst=common.site_of(Ld))
    Ns, Nd = Ls.gaDims, Ld.gaDims
    G = rng.integers(-3, 4, size=(Nd, Ns))

    def g(x):
        return MultiVector(Ld, G @ x.value)
    F = tf.LinearMatrix.from_function(g, Ls, Ld)
    res.case(('from_function', tag, G.tolist()), nontrivial=bool(G.any()))
    for i, b in enumerate(Ls.blades_list):
        if not common.eq(F(b), g(b)):
            res.violate('from_function(g) does not agree with g on a basis blade', dict(site, blade=i, G=G.tolist()), F(b).value.tolist(), g(b).value.tolist(),
                        dict(site, op='from_function'))
            break
    A = common.mv(Ls, gen.int_mv(rng, Ns))
    B = common.mv(Ld, gen.int_mv(rng, Nd))
    if not common.eq(F(A), g(A)):
        res.violate('from_function(g) is not the linear map g', dict(site, A=A.value.tolist()), F(A).value.tolist(), g(A).value.tolist(), dict(site, op='from_function-linear'))
    res.case(('adjoint', tag, G.tolist(), A.value.tolist(), B.value.tolist()))
    lhs = int(np.dot(F(A).value, B.value))
    rhs = int(np.dot(A.value, F.adjoint(B).value))
    if lhs != rhs or F.adjoint.layout_src is not Ld or F.adjoint.layout_dst is not Ls:
        res.violate('<f(a), b> != <a, adj(b)>', dict(site, A=A.value.tolist(), B=B.value.tolist()), lhs, rhs, dict(site, op='adjoint'))
    # wrong layout -> ValueError (layouts compare by signature)
    if [int(s) for s in Ls.sig] != [int(s) for s in Ld.sig]:
        res.case(('wrong-layout', tag))
        try:
            F(B)
            res.violate('applying a transformation to a multivector of a different signature does not raise ValueError', site, 'no error', 'ValueError', dict(site, op='wrong-layout'))
        except ValueError:
            pass
    # wrong matrix shape
    try:
        tf.LinearMatrix(np.zeros((Nd + 1, Ns)), Ls, Ld)
        res.violate('LinearMatrix accepts a matrix of the wrong shape', site, None, None, dict(site, op='shape'))
    except ValueError:
        pass


def check_rotor(res, L, rng, tag):
    import numpy as np
    from clifford import transformations as tf
    n = L.dims
    sig = [int(s) for s in L.sig]
    nonnull = [i for i in range(n) if sig[i] != 0]
    if len(nonnull) < 2:
        return
    E = L.basis_vectors_lst
    # a versor: product of two non-null integer vectors -> R~R scalar
    def vec():
        while True:
            c = [int(x) if i in nonnull else 0 for i, x in enumerate(rng.integers(-2, 3, size=n))]
            if sum(s * ci * ci for s, ci in zip(sig, c)) != 0:
                v = 0 * E[0]
                for ci, e in zip(c, E):
                    v = v + ci * e
                return v
    R = vec() * vec()
    m2 = R.mag2()
    # prefer a versor with negative R~R when the signature allows one (mixed signatures)
    for _ in range(12):
        if m2 < 0:
            break
        R2 = vec() * vec()
        if R2.mag2() < 0:
            R, m2 = R2, R2.mag2()
    if m2 == 0:
        return
    res.count('rotor_negative_norm' if m2 < 0 else 'rotor_positive_norm')
    F = tf.LinearMatrix.from_rotor(R)
    site = dict(src=common.site_of(L), dst=common.site_of(L))
    for _ in range(3):
        x = common.mv(L, gen.int_mv(rng, L.gaDims))
        res.case(('from_rotor', tag, R.value.tolist(), x.value.tolist()), nontrivial=gen.nontrivial_mv(x.value.tolist()))
        exp = (R * x * ~R) / m2
        got = F(x)
        if not np.allclose(got.value, exp.value, rtol=1e-12, atol=1e-12):
            res.violate('from_rotor(R) is not x -> R x ~R / (R~R)', dict(site, R=R.value.tolist(), x=x.value.tolist()), got.value.tolist(), exp.value.tolist(),
                        dict(site, op='from_rotor'))


def check_between(res, rng, tag):
    import numpy as np
    from clifford import transformations as tf
    from harness import real
    S, D = int(rng.integers(1, 4)), int(rng.integers(1, 5))
    ids_s = [int(x) for x in rng.choice(np.arange(1, 9), size=S, replace=False)]
    ids_d = [int(x) for x in rng.choice(np.arange(1, 9), size=D, replace=False)]
    Ls = real.make_layout(gen.random_signature(rng, S), ids=ids_s)
    Ld = real.make_layout(gen.random_signature(rng, D), ids=ids_d)
    k = int(rng.integers(0, min(S, D) + 1))
    src_sel = [ids_s[i] for i in rng.permutation(S)[:k]]
    dst_sel = [ids_d[i] for i in rng.permutation(D)[:k]]
    mapping = dict(zip(src_sel, dst_sel))
    f = tf.between_basis_vectors(Ls, Ld, mapping)
    Es, Ed = Ls.basis_vectors_lst, Ld.basis_vectors_lst
    site = dict(src=common.site_of(Ls), dst=common.site_of(Ld), mapping={str(a): str(b) for a, b in mapping.items()})
    res.case(('between', tag, tuple(ids_s), tuple(ids_d), tuple(mapping.items())), nontrivial=k > 0)
    for j, sid in enumerate(ids_s):
        img = f(Es[j])
        exp = Ed[ids_d.index(mapping[sid])] if sid in mapping else 0 * Ed[0]
        if not common.eq(img, exp):
            res.violate('between_basis_vectors does not send a named basis vector to its image', dict(site, id=sid), img.value.tolist(), exp.value.tolist(),
                        dict(site, op='between'))
    A, B = common.mv(Ls, gen.int_mv(rng, Ls.gaDims)), common.mv(Ls, gen.int_mv(rng, Ls.gaDims))
    if not common.eq(f(A ^ B), f(A) ^ f(B)):
        res.violate('between_basis_vectors is not an outermorphism', dict(site, A=A.value.tolist(), B=B.value.tolist()), None, None, dict(site, op='between-outer'))
    # default mapping: by common ids
    f2 = tf.between_basis_vectors(Ls, Ld)
    for j, sid in enumerate(ids_s):
        exp = Ed[ids_d.index(sid)] if sid in ids_d else 0 * Ed[0]
        if not common.eq(f2(Es[j]), exp):
            res.violate('between_basis_vectors (default mapping) does not map common ids to themselves', dict(site, id=sid), None, None, dict(site, op='between-default'))
    # the same signatures with other basis-vector ids, straight after: the default mapping is by the ids of *these* layouts
    if S >= 2 and D >= 2:
        ids_s2 = [ids_s[i] for i in rng.permutation(S)]
        ids_d2 = [ids_d[i] for i in rng.permutation(D)]
        Ls2 = real.make_layout([int(x) for x in Ls.sig], ids=ids_s2)
        Ld2 = real.make_layout([int(x) for x in Ld.sig], ids=ids_d2)
        f3 = tf.between_basis_vectors(Ls2, Ld2)
        res.case(('between-twin', tag, tuple(ids_s2), tuple(ids_d2)), nontrivial=True)
        Es2, Ed2 = Ls2.basis_vectors_lst, Ld2.basis_vectors_lst
        for j, sid in enumerate(ids_s2):
            exp = Ed2[ids_d2.index(sid)] if sid in ids_d2 else 0 * Ed2[0]
            img = f3(Es2[j])
            if not common.eq(img, exp) or img.layout is not Ld2:
                res.violate('between_basis_vectors (default mapping) on a second pair of layouts with the same signatures and other ids does not map common ids to themselves',
                            dict(site, ids_src=ids_s2, ids_dst=ids_d2, id=sid), img.value.tolist(), exp.value.tolist(), dict(site, op='between-twin'))
                break
    try:
        tf.between_basis_vectors(Ls, Ld, {99: ids_d[0]})
        res.violate('between_basis_vectors accepts an unknown basis vector id', site, None, 'ValueError', dict(site, op='between-error'))
    except ValueError:
        pass


def layouts_for(rng, count):
    from harness import real
    out = []
    for _ in range(count):
        n = int(rng.integers(0, 5))
        # custom storage orders in about half of the layouts, including ones that store a blade before its sub-blades
        order = gen.random_order(rng, n, str(rng.choice(['perm', 'grade_reversed', 'scalar_not_first', 'bitmap']))) if (1 <= n <= 4 and rng.random() < 0.5) else None
        out.append(real.make_layout(gen.random_signature(rng, n), order=order))
    # always: 3- and 4-dimensional sources whose storage order puts higher-grade blades before the blades they are built from
    for n in (3, 4):
        out.append(real.make_layout(gen.random_signature(rng, n), order=gen.random_order(rng, n, 'grade_reversed')))
        out.append(real.make_layout(gen.random_signature(rng, n), order=gen.random_order(rng, n, 'perm')))
    return out


def run_job(job, tier, seed):
    res = core.Result(job)
    rng = gen.rng_for(seed, 'C11', job)
    ob = common.OpBatch()
    count = (14 if tier == 'quick' else 60) if job == 'transform' else 5
    Ls = layouts_for(rng, count)
    count = len(Ls)
    for i in range(count):
        a, b = Ls[i], Ls[int(rng.integers(count))]
        st = dict(src=common.site_of(a), dst=common.site_of(b))
        with common.guard(res, 'OutermorphismMatrix', st):
            check_outermorphism(res, a, b, rng, f"T{i}", ob, 2)
        with common.guard(res, 'OutermorphismMatrix', dict(src=st['src'], dst=st['src'])):
            check_outermorphism(res, a, a, rng, f"U{i}", ob, 1)
        if a.gaDims <= 16 and b.gaDims <= 16:
            with common.guard(res, 'LinearMatrix.from_function/adjoint', st):
                check_linear_matrix(res, a, b, rng, f"T{i}")
        with common.guard(res, 'outermorphism composition', st):
            check_compose(res, a, b, Ls[int(rng.integers(count))], rng, f"T{i}")
        with common.guard(res, 'LinearMatrix.from_rotor', st):
            check_rotor(res, a, rng, f"T{i}")
        with common.guard(res, 'between_basis_vectors', st):
            check_between(res, rng, f"T{i}")
    ob.run(res, job)
    return res


def replay(obj):
    res = run_job('transform', 'quick', 0)
    for v in res.violations[:5]:
        print('still failing:', v['what'], v['site'])
    return 1 if res.violations else 0
