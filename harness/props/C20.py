"""C20 File I/O round-trips: .ga (HDF5), JSON and MVArray.save/load."""
import itertools
import os
import tempfile

from harness import core, gen, common

ID = 'C20'
LEAN_TARGETS = ['Props.C20']
TIE_A = ['io_files_eq']
OBLIGATIONS = [
    'C20.transpose_involutive', 'C20.read_write_roundtrip', 'C20.compression_flag_irrelevant', 'C20.json_shape_roundtrip',
    'C20.json_elements_roundtrip', 'C20.json_empty_array_loses_shape', 'C20.load_signature_mismatch', 'C20.load_signature_match',
]
RULE = ("array shapes with 0..3 leading axes incl. zero-sized ones, last axis 2^n; dtypes float64/int64 for both formats plus int32/float32 for HDF5; "
        "all signatures classes incl. degenerate; the four (compression, transpose) combinations x {ga, json}. "
        "Non-trivial = array with at least one non-zero element; distinct = distinct (format, flags, shape, dtype, data hash)")
ASSUMPTIONS = ["h5py and json store and return what they are given (dtype, element order)",
               "JSON numeric dtypes are read at numpy's default width (int64/float64): narrower dtypes are not claimed for JSON"]


def jobs(tier, seed):
    return [dict(name='files', jit=False, timeout=1800)]


def shapes(rng, tier, gaD):
    out = [(gaD,), (1, gaD), (3, gaD), (2, 3, gaD), (2, 1, 2, gaD), (0, gaD), (2, 0, gaD), (0, 3, gaD)]
    for _ in range(4 if tier == 'quick' else 20):
        k = int(rng.integers(0, 4))
        out.append(tuple(int(x) for x in rng.integers(0 if rng.random() < 0.15 else 1, 4, size=k)) + (gaD,))
    return out


def run_job(job, tier, seed):
    import numpy as np
    import h5py
    import json
    import clifford as cf
    from clifford import io as cio
    from harness import real
    res = core.Result(job)
    rng = gen.rng_for(seed, 'C20', job)
    tmp = tempfile.mkdtemp(prefix='cliffverif_io_')
    ob = common.OpBatch()
    try:
        sigs = [[1, 1], [1, -1, 0], [0, 1, 1, 1], [-1, -1], gen.random_signature(rng, 3), gen.random_signature(rng, 2, 'degenerate')]
        k = 0
        for sig in sigs:
            L = real.make_layout(sig)
            gaD = L.gaDims
            metric = L.metric
            names = L.basis_names
            for shp in shapes(rng, tier, gaD):
                for dt in (np.float64, np.int64, np.int32, np.float32):
                    size = int(np.prod(shp))
                    if np.dtype(dt).kind == 'f':
                        arr = (rng.integers(-64, 65, size=size) / 8.0).astype(dt).reshape(shp)
                    else:
                        arr = rng.integers(-99, 100, size=size).astype(dt).reshape(shp)
                    for fmt, comp, tr in itertools.product(('ga', 'json'), (True, False), (True, False)):
                        if fmt == 'json' and dt in (np.int32, np.float32):
                            continue
                        k += 1
                        fn = os.path.join(tmp, f"f{k}.{fmt}")
                        site = dict(format=fmt, compression=comp, transpose=tr, shape=list(shp), dtype=np.dtype(dt).name, sig=sig,
                                    empty=(size == 0))
                        res.case((fmt, comp, tr, shp, np.dtype(dt).name, arr.tobytes()), nontrivial=bool(arr.any()),
                                 sample=dict(site))
                        res.count(f'{fmt}_c{int(comp)}t{int(tr)}')
                        res.count('empty' if size == 0 else 'nonempty')
                        try:
                            if fmt == 'ga':
                                cio.write_ga_file(fn, arr, metric, names, compression=comp, transpose=tr)
                                data, m2, n2, sup = cio.read_ga_file(fn)
                            else:
                                cio.write_json_file(fn, arr, metric, names, compression=comp, transpose=tr)
                                data, m2, n2, sup = cio.read_json_file(fn)
                        except Exception as e:
                            res.violate('writing or reading a file raises', site, repr(e), 'round trip', dict(site, op='io-raise', error=type(e).__name__))
                            continue
                        ok = (isinstance(data, np.ndarray) and data.shape == arr.shape and data.dtype == arr.dtype and np.array_equal(data, arr)
                              and np.array_equal(np.asarray(m2), metric) and [str(x) for x in n2] == [str(x) for x in names] and sup is None)
                        if not ok:
                            res.violate('file round trip does not return the array (shape, dtype, orientation), metric, names and no support', site,
                                        dict(shape=list(getattr(data, 'shape', [])), dtype=str(getattr(data, 'dtype', None)), support=repr(sup)),
                                        dict(shape=list(arr.shape), dtype=np.dtype(dt).name), dict(site, op='roundtrip'))
                        # what is actually stored: compare with the model's record
                        if fmt == 'ga':
                            with h5py.File(fn, 'r') as f:
                                stored = f['data'].shape
                                flags = (bool(f['data'].attrs['transpose']), bool(f['data'].attrs['sparse']), f['support'].shape[0])
                        else:
                            with open(fn) as f:
                                j = json.load(f)
                            stored = np.array(j['dataset']['data']).shape
                            flags = (bool(j['dataset']['transpose']), bool(j['dataset']['sparse']), len(j['dataset']['support']))
                        exp_stored = tuple(reversed(shp)) if tr else tuple(shp)
                        if fmt == 'ga' or size > 0:
                            obs = f"{core.ints(stored)} {str(flags[0]).lower()} {str(flags[1]).lower()} {'' if flags[2] == 0 else flags[2]} {core.ints(shp)}"
                            ob.raw(f"IOW {int(tr)} {core.ints(shp)}", obs, 'stored record (shape, flags) differs from the model', key=('iow', fmt, comp, tr, shp, np.dtype(dt).name),
                                   site=dict(site, op='record'))
                        if fmt == 'json':
                            ob.raw(f"JSONSHAPE {core.ints(exp_stored)}", core.ints(stored), 'shape numpy infers from the JSON nested list differs from the model',
                                   key=('jsonshape', tr, shp), site=dict(site, op='json-shape'))
                        os.unlink(fn)
            # basis-name lists other than the layout's own: any list of strings is returned as written (unequal lengths, the
            # lexicographically largest name not the longest, repeated prefixes, the empty name)
            letters = 'abexyz019'
            name_lists = [[''] + ['z'] + ['a' * (2 + i % 5) + str(i) for i in range(gaD - 2)],
                          ['e%d' % i for i in range(9, 9 + gaD)],
                          [''.join(letters[int(c)] for c in rng.integers(0, len(letters), size=int(rng.integers(0, 7)))) + '_%d' % i for i in range(gaD)],
                          ['blade-with-a-long-name-%03d' % i if i == 1 else 'y%d' % i for i in range(gaD)]]
            for ni, nl in enumerate(name_lists):
                arr = rng.integers(-9, 10, size=(3, gaD)).astype(np.float64)
                for fmt, comp, tr in itertools.product(('ga', 'json'), (True, False), (True, False)):
                    k += 1
                    fn = os.path.join(tmp, f"n{k}.{fmt}")
                    site = dict(format=fmt, compression=comp, transpose=tr, sig=sig, names=nl)
                    res.case(('names', fmt, comp, tr, tuple(nl)), nontrivial=True)
                    res.count('custom_names')
                    try:
                        if fmt == 'ga':
                            cio.write_ga_file(fn, arr, metric, nl, compression=comp, transpose=tr)
                            data, m2, n2, sup = cio.read_ga_file(fn)
                        else:
                            cio.write_json_file(fn, arr, metric, nl, compression=comp, transpose=tr)
                            data, m2, n2, sup = cio.read_json_file(fn)
                    except Exception as e:
                        res.violate('writing or reading a file with a custom basis-name list raises', site, repr(e), 'round trip', dict(site, op='io-names-raise', error=type(e).__name__))
                        continue
                    got = [x.decode('utf-8') if isinstance(x, bytes) else str(x) for x in n2]
                    if got != nl or not np.array_equal(data, arr):
                        res.violate('the basis names read back are not the names written', site, got, nl, dict(format=fmt, compression=comp, transpose=tr, sig=sig, op='names'))
                    os.unlink(fn)
            # a history on one MVArray: saved once, then changed through a view / in place / through an element, then saved again
            for shp in ((4,), (2, 3)):
                vals = rng.integers(-9, 10, size=shp + (gaD,)).astype(float)
                for route in ('view', 'inplace-arith', 'element-setitem', 'element-value', 'own-setitem'):
                    arr = cf.MVArray.from_value_array(L, vals)
                    k += 1
                    fn = os.path.join(tmp, f"h{k}.ga")
                    site = dict(format='mvarray', route=route, shape=list(shp), sig=sig)
                    res.case(('save-history', route, shp, tuple(sig), vals.tobytes()))
                    res.count('mvarray_save_history')
                    try:
                        arr.save(fn)
                        _ = arr.value
                        new = L.MultiVector(np.arange(1, gaD + 1, dtype=float))
                        if route == 'view':
                            arr.reshape(-1)[int(np.prod(shp)) - 1] = new
                        elif route == 'inplace-arith':
                            arr *= 2
                        elif route == 'element-setitem':
                            arr[(0,) * len(shp)][()] = 42.0
                        elif route == 'element-value':
                            arr[(0,) * len(shp)].value[gaD - 1] = 7.5
                        else:
                            arr[(0,) * len(shp)] = new
                        current = np.array([x.value for x in arr.ravel()]).reshape(shp + (gaD,))
                        if np.array_equal(current, vals):
                            res.violate('harness: the modification did not change the array', site, None, None, dict(site, op='save-history-noop'))
                        os.unlink(fn)
                        arr.save(fn)
                        back = L.load_ga_file(fn)
                        loaded = np.array([x.value for x in back.ravel()]).reshape(shp + (gaD,))
                        if back.shape != arr.shape or not np.array_equal(loaded, current) or not np.array_equal(arr.value, current):
                            res.violate('MVArray.save after the array was modified does not write the current multivectors (load_ga_file returns others)', site,
                                        loaded.tolist()[:2], current.tolist()[:2], dict(site, op='save-history'))
                    except Exception as e:
                        res.violate('MVArray.save / load_ga_file raises in a save-modify-save history', site, repr(e), 'round trip', dict(site, op='save-history-raise'))
                    if os.path.exists(fn):
                        os.unlink(fn)
            # MVArray.save / load_ga_file
            for shp in ((4,), (2, 3), (1,)):
                vals = rng.integers(-9, 10, size=shp + (gaD,)).astype(float)
                arr = cf.MVArray.from_value_array(L, vals)
                for comp, tr in itertools.product((True, False), repeat=2):
                    k += 1
                    fn = os.path.join(tmp, f"s{k}.ga")
                    site = dict(format='mvarray', compression=comp, transpose=tr, shape=list(shp), sig=sig)
                    res.case(('save', comp, tr, shp, tuple(sig), vals.tobytes()))
                    res.count('mvarray_save')
                    try:
                        arr.save(fn, compression=comp, transpose=tr)
                        back = L.load_ga_file(fn)
                        ok = back.shape == arr.shape and np.array_equal(back.value, arr.value) and all(x.layout is L for x in back.ravel())
                    except Exception as e:
                        ok = False
                        res.violate('MVArray.save / load_ga_file raises', site, repr(e), 'round trip', dict(site, op='save-raise'))
                        continue
                    if not ok:
                        res.violate('MVArray.save then load_ga_file does not return equal multivectors attached to the loading layout', site,
                                    None, None, dict(site, op='save-load'))
                    # the file MVArray.save wrote (it passes its own default `support=False` through), read with the plain reader: the array as
                    # saved and no support for dense data; likewise for the spellings of "no support" a caller of write_ga_file may use
                    try:
                        d_, m_, n_, sup_ = cio.read_ga_file(fn)
                        res.count('mvarray_save_plain_read')
                        if not (sup_ is None and np.array_equal(d_, arr.value) and d_.dtype == arr.value.dtype):
                            res.violate('read_ga_file of a file written by MVArray.save does not return the saved array with no support', site,
                                        dict(support=repr(sup_), shape=list(getattr(d_, 'shape', []))), dict(support=None, shape=list(arr.value.shape)),
                                        dict(site, op='save-plain-read'))
                        for spelled in (False, None):
                            fn3 = os.path.join(tmp, f"u{k}.ga")
                            cio.write_ga_file(fn3, arr.value, L.metric, L.basis_names, compression=comp, transpose=tr, sparse=False, support=spelled)
                            d3, m3, n3, sup3 = cio.read_ga_file(fn3)
                            res.case(('dense-support-spelling', comp, tr, shp, tuple(sig), repr(spelled)))
                            res.count('dense_support_spelling')
                            if not (sup3 is None and np.array_equal(d3, arr.value)):
                                res.violate('dense data written with sparse=False reports a support', dict(site, support_argument=repr(spelled)), repr(sup3), None,
                                            dict(site, op='dense-support', support_argument=repr(spelled)))
                            os.unlink(fn3)
                    except Exception as e:
                        res.violate('reading a file written by MVArray.save / write_ga_file(sparse=False) raises', site, repr(e), 'round trip', dict(site, op='save-plain-raise'))
                    # a second layout with the SAME signature (equal under Layout.__eq__) but another blade order, used after the first one in
                    # this process: what it saves and loads belongs to it, not to the first layout
                    if len(sig) >= 2:
                        twin = real.make_layout(sig, order=list(range(gaD)) if not common.is_shortlex(L) or len(sig) < 3 else list(reversed(range(gaD))))
                        res.case(('save-twin', comp, tr, shp, tuple(sig), vals.tobytes()))
                        res.count('mvarray_save_twin')
                        fn2 = os.path.join(tmp, f"t{k}.ga")
                        try:
                            arr2 = cf.MVArray.from_value_array(twin, vals)
                            arr2.save(fn2, compression=comp, transpose=tr)
                            back2 = twin.load_ga_file(fn2)
                            ok2 = (all(x.layout is twin for x in arr2.ravel()) and back2.shape == arr2.shape and np.array_equal(back2.value, vals)
                                   and all(x.layout is twin for x in back2.ravel()))
                        except Exception as e:
                            ok2 = False
                            res.violate('MVArray.save / load_ga_file raises on a second layout of the same signature', site, repr(e), 'round trip',
                                        dict(site, op='save-twin-raise'))
                        else:
                            if not ok2:
                                res.violate('multivectors built / loaded for a second layout of the same signature (other blade order) are attached to the first layout',
                                            dict(site, twin_order='bitmap/reversed'), None, None, dict(site, op='save-load-twin'))
                        if os.path.exists(fn2):
                            os.unlink(fn2)
                    # a layout of different signature must refuse
                    others = [[(-s if s != 0 else 1) for s in sig]]
                    # same numbers of +, -, 0 in a different order is a different signature too
                    for cand in (list(reversed(sig)), sig[1:] + sig[:1]):
                        if cand != sig:
                            others.append(cand)
                            break
                    for other_sig in others:
                        other = real.make_layout(other_sig)
                        res.case(('load-mismatch', tuple(sig), tuple(other_sig), comp, tr, shp))
                        ob.raw(f"LOADCHECK {core.ints(sig)} {core.ints(other_sig)}", 'err ValueError', 'model accepts a mismatching signature', site=dict(site, op='loadcheck'))
                        try:
                            other.load_ga_file(fn)
                            res.violate('loading into a layout of different signature does not raise ValueError', dict(site, other=other_sig), 'loaded', 'ValueError',
                                        dict(site, op='load-mismatch'))
                        except ValueError:
                            pass
                    os.unlink(fn)
        ob.run(res, 'io')
    finally:
        import shutil
        shutil.rmtree(tmp, ignore_errors=True)
    return res


def replay(obj):
    res = run_job('files', 'quick', 0)
    bad = [v for v in res.violations if core.match_known('C20', v) is None]
    for v in bad[:5]:
        print('still failing:', v['what'], v['site'])
    return 1 if bad else 0
