"""C07 Blade names, tuple/blade indexing and grade projection are mutually consistent."""
import itertools

from harness import core, gen, common
from harness.props import C01

ID = 'C07'
LEAN_TARGETS = ['Props.C07']
TIE_A = ['tuple_as_sign_and_bitmap_eq']
OBLIGATIONS = [
    'C07.tuple_sign_is_sorting_parity', 'C07.tuple_repeated_id_error', 'C07.setitem_getitem',
    'C07.call_keeps_grade', 'C07.call_beyond_dimension', 'C07.projections_sum', 'C07.projection_idempotent',
    'C07.projection_additive', 'C07.metric_is_diag_sig',
]
PENDING = ['name table / dictionary construction is modelled by the harness predicates only (strings are not in the Lean model)']
RULE = ("layouts with default and custom ids (ints from any first index, shuffled, strings, non-contiguous), shortlex and permuted "
        "storage orders, custom names; every permutation of every id subset up to size 4 (5 in thorough); integer multivectors; "
        "non-trivial = tuple of length >= 2 or a non-scalar operand; distinct = distinct (layout, key/grade, operand) text")
ASSUMPTIONS = C01.ASSUMPTIONS


def jobs(tier, seed):
    return [dict(name='index', jit=False, timeout=2400), dict(name='index_jit', jit=True, timeout=2400)]


def perm_sign(positions):
    inv = sum(1 for i in range(len(positions)) for j in range(i) if positions[j] > positions[i])
    return -1 if inv % 2 else 1


def check_layout(res, L, rng, tag, kmax, names_unique=True):
    import numpy as np
    from clifford import MultiVector
    n, N = L.dims, L.gaDims
    site = dict(common.site_of(L), ids=[str(x) for x in L._basis_vector_ids.values])
    ids = list(L._basis_vector_ids.values)
    i2b = L._basis_blade_order.index_to_bitmap.tolist()
    b2i = {b: i for i, b in enumerate(i2b)}
    gr = np.array(common.grades_of(L))
    sig = [int(x) for x in L.sig]
    E = L.basis_vectors_lst
    one = common.mv(L, [1 if b == 0 else 0 for b in i2b])
    # basis vectors in id order
    res.case(('basisvecs', tag), nontrivial=n >= 1)
    for k, e in enumerate(E):
        exp = [1 if b == (1 << k) else 0 for b in i2b]
        if e.value.tolist() != exp:
            res.violate('basis_vectors_lst is not in id order', dict(site, k=k), e.value.tolist(), exp, dict(site, op='basis_vectors_lst'))
    # names dictionary: every named blade is the ordered product of the basis vectors in its id tuple
    blades = L.blades
    res.case(('names', tag), nontrivial=n >= 1)
    if names_unique and len(set(L.names)) == N:
        if list(blades.keys()) != list(L.names):
            res.violate('layout.blades keys are not the names in storage order', dict(site), list(blades.keys())[:8], list(L.names)[:8], dict(site, op='names'))
        for idx in (range(N) if N <= 64 else rng.choice(N, 40, replace=False)):
            idx = int(idx)
            tup = L._index_as_tuple(idx)
            prod = one
            for t in tup:
                prod = prod * E[ids.index(t)]
            nb = blades[L.names[idx]]
            if not common.eq(prod, nb) or nb.value.tolist() != [1 if j == idx else 0 for j in range(N)]:
                res.violate('named blade is not the ordered product of the basis vectors of its ids', dict(site, name=L.names[idx], ids=[str(t) for t in tup]),
                            nb.value.tolist(), prod.value.tolist(), dict(site, op='blades'))
            # a default name `<prefix><i1><i2>..` spells the factors in the order of the product it names
            name_ = L.names[idx]
            if isinstance(name_, str) and 2 <= len(tup) <= 4:
                spellings_ = [''.join(str(t_) for t_ in perm_) for perm_ in itertools.permutations(tup)]
                # ids such as 1 and 11 spell 'e111' in two orders: such a name does not determine an order
                for perm_ in (itertools.permutations(tup) if len(set(spellings_)) == len(spellings_) else ()):
                    for pre_ in ('e', name_[:1]):
                        if name_ == pre_ + ''.join(str(t_) for t_ in perm_):
                            pp_ = one
                            for t_ in perm_:
                                pp_ = pp_ * E[ids.index(t_)]
                            if not common.eq(pp_, nb):
                                res.violate('a default blade name lists the ids in an order whose product is not the named blade',
                                            dict(site, name=name_, ids=[str(t_) for t_ in perm_]), nb.value.tolist(), pp_.value.tolist(), dict(site, op='blade-name-order'))
                            break
            # bitmap <-> tuple
            exp_tup = tuple(ids[k] for k in range(n) if (i2b[idx] >> k) & 1)
            if tuple(tup) != exp_tup:
                res.violate('_index_as_tuple does not list the ids of the set bits in id order', dict(site, idx=idx), [str(t) for t in tup],
                            [str(t) for t in exp_tup], dict(site, op='index_as_tuple'))
    # blades_of_grade, scalar, metric
    res.case(('grades-lists', tag), nontrivial=n >= 1)
    for g in range(n + 2):
        bl = L.blades_of_grade(g)
        exp = [i for i in range(N) if gr[i] == g]
        got = [int(np.nonzero(b.value)[0][0]) for b in bl if np.count_nonzero(b.value) == 1]
        if got != exp or len(bl) != len(exp):
            res.violate('blades_of_grade does not list the basis blades of that grade', dict(site, g=g), got, exp, dict(site, op='blades_of_grade'))
    if not common.eq(L.scalar, one):
        res.violate('layout.scalar is not 1', dict(site), L.scalar.value.tolist(), one.value.tolist(), dict(site, op='scalar'))
    if n >= 1:
        m = L.metric
        if m.tolist() != np.diag(sig).astype(float).tolist():
            res.violate('metric is not diag(signature)', dict(site), m.tolist(), np.diag(sig).tolist(), dict(site, op='metric'))
    # tuple indexing: every permutation of every id subset up to kmax
    A = common.mv(L, [int(x) for x in rng.integers(-9, 10, size=N)])
    for k in range(0, min(n, kmax) + 1):
        subsets = list(itertools.combinations(range(n), k))
        if len(subsets) > 12:
            subsets = [subsets[i] for i in rng.choice(len(subsets), 12, replace=False)]
        for sub in subsets:
            bm = sum(1 << p for p in sub)
            idx = b2i[bm]
            perms = list(itertools.permutations(sub))
            if len(perms) > 24:
                perms = [perms[i] for i in rng.choice(len(perms), 24, replace=False)]
            for perm in perms:
                key = tuple(ids[p] for p in perm)
                sg = perm_sign(list(perm))
                res.case(('getitem', tag, tuple(map(str, key)), A.value.tolist()), nontrivial=k >= 2)
                got = A[key]
                if int(got) != sg * int(A.value[idx]):
                    res.violate('M[(ids)] is not sign(sorting permutation) * coefficient', dict(site, key=[str(x) for x in key], M=A.value.tolist()),
                                int(got), sg * int(A.value[idx]), dict(site, op='getitem', k=k))
                s2, i2 = L._sign_and_index_from_tuple(key)
                if (int(s2), int(i2)) != (sg, idx):
                    res.violate('_sign_and_index_from_tuple is wrong', dict(site, key=[str(x) for x in key]), [int(s2), int(i2)], [sg, idx],
                                dict(site, op='sign_and_index', k=k))
                B = common.mv(L, A.value.copy())
                x = int(rng.integers(-50, 51))
                B[key] = x
                exp = A.value.copy()
                exp[idx] = sg * x
                if B.value.tolist() != exp.tolist() or int(B[key]) != x:
                    res.violate('M[(ids)] = x does not write sign*x to that blade only', dict(site, key=[str(x) for x in key], x=x, M=A.value.tolist()),
                                B.value.tolist(), exp.tolist(), dict(site, op='setitem', k=k))
    # M[blade]
    for idx in (range(N) if N <= 32 else rng.choice(N, 16, replace=False)):
        idx = int(idx)
        res.case(('getblade', tag, idx, A.value.tolist()))
        if int(A[L._basis_blade(idx)]) != int(A.value[idx]):
            res.violate('M[blade] does not read the blade coefficient', dict(site, idx=idx, M=A.value.tolist()), int(A[L._basis_blade(idx)]),
                        int(A.value[idx]), dict(site, op='getblade'))
    # M[key blade] for any single-element key: the weight and sign of the key do not matter (-e12, e2*e1, 3*e12, ~e12 ...)
    for idx in (range(N) if N <= 16 else rng.choice(N, 8, replace=False)):
        idx = int(idx)
        for w in (-1, 3, -2):
            key = w * L._basis_blade(idx)
            res.case(('getblade-weighted', tag, idx, w, A.value.tolist()), nontrivial=idx != 0)
            res.count('getblade_weighted')
            if int(A[key]) != int(A.value[idx]):
                res.violate('M[blade] does not read the blade coefficient when the key blade has a negative or non-unit weight', dict(site, idx=idx, weight=w, M=A.value.tolist()),
                            int(A[key]), int(A.value[idx]), dict(site, op='getblade-weighted'))
    # errors
    if n >= 1:
        res.case(('errors', tag))
        bads = [(ids[0], ids[0]), (ids[-1], ids[0], ids[-1]) if n >= 2 else (ids[0], ids[0]), ('no-such-id',), (ids[0], 'no-such-id')]
        if all(isinstance(i_, (int, np.integer)) for i_ in ids):
            # integers just outside the id range, negative ones, and the window of width n below the smallest id
            lo_, hi_ = min(int(i_) for i_ in ids), max(int(i_) for i_ in ids)
            for u_ in (lo_ - 1, lo_ - n, hi_ + 1, -1, -n, 0):
                if u_ not in [int(i_) for i_ in ids]:
                    bads.append((u_,))
                    bads.append((ids[0], u_))
        for bad in bads:
            for how in ('get', 'set'):
                try:
                    if how == 'get':
                        A[bad]
                    else:
                        common.mv(L, A.value.copy())[bad] = 1
                    res.violate('repeated or unknown ids do not raise ValueError', dict(site, key=[str(x) for x in bad], how=how), 'no error', 'ValueError',
                                dict(site, op='index-error'))
                except ValueError:
                    pass
                except Exception as e:
                    res.violate('repeated or unknown ids raise the wrong exception', dict(site, key=[str(x) for x in bad], how=how), repr(e), 'ValueError',
                                dict(site, op='index-error'))
    # grade projection
    for _ in range(2):
        M = common.mv(L, gen.int_mv(rng, N))
        nt = gen.nontrivial_mv(M.value.tolist())
        tot = np.zeros(N, dtype=np.int64)
        for g in range(n + 3):
            res.case(('call', tag, g, M.value.tolist()), nontrivial=nt)
            got = M(g)
            exp = np.where(gr == g, M.value, 0)
            if got.value.tolist() != exp.tolist() or M(np.int64(g)).value.tolist() != exp.tolist():
                res.violate('M(g) does not keep exactly the grade-g coefficients (0 beyond the dimension)', dict(site, g=g, M=M.value.tolist()),
                            got.value.tolist(), exp.tolist(), dict(site, op='call', g=g))
            tot = tot + got.value
        if tot.tolist() != M.value.tolist():
            res.violate('grade projections do not sum to M', dict(site, M=M.value.tolist()), tot.tolist(), M.value.tolist(), dict(site, op='call-sum'))
        gs = [int(x) for x in rng.integers(0, n + 2, size=int(rng.integers(2, 4)))]
        res.case(('callmulti', tag, tuple(gs), M.value.tolist()), nontrivial=nt)
        got = M(*gs)
        exp = sum(np.where(gr == g, M.value, 0) for g in gs)
        if got.value.tolist() != exp.tolist():
            res.violate('M(g1..gk) is not the sum of the projections', dict(site, gs=gs, M=M.value.tolist()), got.value.tolist(), exp.tolist(),
                        dict(site, op='call-multi'))
        res.case(('grades', tag, M.value.tolist()), nontrivial=nt)
        expg = set(int(gr[i]) for i in range(N) if M.value[i] != 0)
        if set(int(g) for g in M.grades()) != expg:
            res.violate('grades() is not the set of grades with a non-negligible coefficient', dict(site, M=M.value.tolist()), sorted(M.grades()),
                        sorted(expg), dict(site, op='grades'))
        # eps handling: coefficients below eps are ignored
        F = common.mv(L, M.value.astype(float) * 2.0 ** -70, np.float64)
        if any(M.value) and set(F.grades()) != set():
            res.violate('grades() reports coefficients below eps', dict(site, M=F.value.tolist()), sorted(F.grades()), [], dict(site, op='grades-eps'))
        if set(int(g) for g in F.grades(eps=0)) != expg:
            res.violate('grades(eps=0) misses non-zero coefficients', dict(site, M=F.value.tolist()), sorted(F.grades(eps=0)), sorted(expg), dict(site, op='grades-eps'))


def correspondence(res, layouts, rng, reps, label):
    import numpy as np
    ob = common.OpBatch()
    for tag, L in layouts:
        n, N = L.dims, L.gaDims
        ids = list(L._basis_vector_ids.values)
        # tuple loop: positions (ids resolved by the harness), incl. repeated ones
        for _ in range(reps * 3):
            k = int(rng.integers(0, min(n, 8) + 1))
            if rng.random() < 0.2 and n >= 1:
                pos = [int(x) for x in rng.integers(0, n, size=k + 1)]
            else:
                pos = [int(x) for x in rng.permutation(n)[:k]]
            key = tuple(ids[p] for p in pos)
            try:
                s, bm = L._basis_vector_ids.tuple_as_sign_and_bitmap(key)
                obs = f"{int(s)} {int(bm)}"
            except ValueError:
                obs = 'err ValueError'
            ob.raw(f"TUPLE {core.ints(pos)}", obs, 'tuple_as_sign_and_bitmap differs from the model loop', nontrivial=k >= 2,
                   site=dict(common.site_of(L), op='tuple'))
        for _ in range(reps):
            a = gen.int_mv(rng, N)
            A = common.mv(L, a)
            gs = [int(x) for x in rng.integers(0, n + 2, size=int(rng.integers(1, 4)))]
            ob.op(tag, L, 'proj', [core.ints(gs), core.mvstr(a)], A(*gs).value, nontrivial=gen.nontrivial_mv(a))
            ob.op(tag, L, 'grades', ['1/1000000000000', core.mvstr(a)], core.ints(sorted(int(g) for g in A.grades())) if A.grades() else '',
                  nontrivial=gen.nontrivial_mv(a))
    ob.run(res, label)


def _cases(tier, rng):
    cases = []
    for n in range(0, 4):
        cases.append(dict(sig=gen.random_signature(rng, n)))
    for _ in range(24 if tier == 'quick' else 120):
        n = int(rng.integers(1, 6))
        ids, first = gen.random_ids(rng, n)
        order = gen.random_order(rng, n) if n <= 4 else None
        cases.append(dict(sig=gen.random_signature(rng, n), ids=ids, first=first, order=order))
    # larger dimensions: id tuples whose members are far apart in the id list
    for n in ((6, 7) if tier == 'quick' else (6, 6, 7, 7, 8, 9)):
        ids, first = gen.random_ids(rng, n, str(rng.choice(['default', 'shuffled', 'first0', 'noncontig'])))
        cases.append(dict(sig=gen.random_signature(rng, n), ids=ids, first=first, order=None))
    return cases


def run_job(job, tier, seed):
    from harness import real
    import clifford as cf
    res = core.Result(job)
    rng = gen.rng_for(seed, 'C07', job)
    kmax = 4 if tier == 'quick' else 5
    if job == 'index':
        layouts = common.build_layouts(res, _cases(tier, rng))
        for tag, L in layouts:
            common.gcall(res, check_layout, L, rng, tag, kmax)
        # custom names, Cl() with firstIdx and names, predefined modules
        extra = []
        for n in (2, 3):
            N = 2 ** n
            names = [''] + [f"b{i}" for i in range(1, N)]
            extra.append((f"N{n}", real.make_layout(gen.random_signature(rng, n), names=names)))
            L2, bl = cf.Cl(n, firstIdx=0)
            extra.append((f"F{n}", L2))
            res.case(('Cl-blades', n))
            if list(bl.keys()) != list(L2.names) or any(bl[k].value.tolist() != L2.blades[k].value.tolist() for k in bl):
                res.violate('Cl() does not return layout.blades', dict(n=n), None, None, dict(op='Cl'))
            L3, _ = cf.Cl(1, 1, 1, names='f')
            extra.append((f"S{n}", L3))
        for name in ('g3c', 'pga', 'sta:D', 'g2'):
            extra.append((name, real.predefined(name)))
        for tag, L in extra:
            common.gcall(res, check_layout, L, rng, tag, kmax)
        common.gcall(res, correspondence, [(t, L) for t, L in layouts if L.gaDims <= 256], rng, 3 if tier == 'quick' else 10, 'nojit')
    elif job == 'index_jit':
        cases = _cases('quick', rng)[:8]
        layouts = common.build_layouts(res, cases, prefix='J')
        for tag, L in layouts:
            common.gcall(res, check_layout, L, rng, tag, kmax)
        common.gcall(res, correspondence, layouts, rng, 4, 'jit')
    else:
        raise ValueError(job)
    return res


def replay(obj):
    from harness import real
    site = obj.get('site', {})
    order = site.get('order')
    L = real.make_layout(site['sig'], None, None, order if isinstance(order, list) else None)
    res = core.Result('replay')
    check_layout(res, L, gen.rng_for(0, 'replay'), 'replay', 4)
    for v in res.violations[:5]:
        print('still failing:', v['what'], v['site'])
    return 1 if res.violations else 0
