"""C13 Rotor recovery in g3c inverts the forward action on exact data."""
import math
from fractions import Fraction

from harness import core, gen, common

ID = 'C13'
LEAN_TARGETS = ['Props.C13']
TIE_A = ['g3c_rotor_between_planes_eq', 'g3c_rotor_roots_eq', 'val_exp_eq']
OBLIGATIONS = ['C13.intertwining', 'C13.rotor_carries', 'C13.translation_fixes_einf', 'C13.rotor_between_objects_positive_root',
               'C13.rotor_between_objects_scalar_sigma', 'C13.positive_root_squares', 'C13.square_root_of_rotor',
               'C13.sigma_is_scalar_plus_pseudovector', 'C13.reverse_of_C', 'C13.rotor_between_objects_g3c', 'C13.ga_log_inverts_ga_exp_partial']
PARTIAL = ['the polar-decomposition normalisation is proved with the square roots as parameters constrained by their defining equations (positive-root branch, scalar sigma, '
           'positive_root squared, square root of a rotor); that sigma = C~C is scalar + 4-vector with a scalar square IS proved for every pair of same-grade blades of the '
           '5-dimensional algebra (sigma_is_scalar_plus_pseudovector, rotor_between_objects_g3c). The floating-point choice between the '
           'branches, motor_between_rounds, general_logarithm and interpolation have no Lean theorem: decided by evaluation on the implementation',
           'ga_log(ga_exp(B)) = B: proved for the closed form of ga_exp with the grade parts of R given explicitly (ga_log_inverts_ga_exp_partial); that R(2), R(4), (phiP R(2))(2) '
           'select exactly those parts and that arccos(R[()]) returns phi are evaluated']
RULE = ("pairs of normalised point pairs, lines, circles, planes and spheres built from integer points (coordinates in [-4, 4]) in general position and in the special "
        "positions equal, translated, rotated, dilated, parallel, concentric, intersecting, disjoint, nested (antipodal X2 = -X1 excluded); TR / TRS rotors with translation "
        "<= 4 and scale in [1/2, 2]. Non-trivial = X1 != X2; distinct = distinct (kind, position, points)")
ASSUMPTIONS = ["tolerance 1e-6 relative (square roots and thresholds inside the extractors)"]

KINDS = ['point_pair', 'line', 'circle', 'plane', 'sphere']
NPTS = dict(point_pair=2, line=2, circle=3, plane=3, sphere=4)


def jobs(tier, seed):
    return [dict(name='rotors', jit=False, timeout=1200 if tier == 'quick' else 3000), dict(name='rotors_jit', jit=True, timeout=1200 if tier == 'quick' else 3000)]


def near(a, b, scale=1.0, tol=1e-6):
    import numpy as np
    a = np.asarray(getattr(a, 'value', a), dtype=float)
    b = np.asarray(getattr(b, 'value', b), dtype=float)
    return bool(a.shape == b.shape and np.all(np.isfinite(a)) and np.max(np.abs(a - b)) <= tol * max(1.0, scale))


def pm_near(a, b, scale=1.0, tol=1e-6):
    return near(a, b, scale, tol) or near(a, -b, scale, tol)


def mag(*xs):
    import numpy as np
    return max([1.0] + [float(np.max(np.abs(np.asarray(getattr(x, 'value', x), dtype=float)))) for x in xs])


def ipt(rng, t, lo=-4, hi=4):
    return float(rng.integers(lo, hi + 1)) * t.e1 + float(rng.integers(lo, hi + 1)) * t.e2 + float(rng.integers(lo, hi + 1)) * t.e3


def build(kind, pts, t):
    P = [t.up(p) for p in pts]
    W = P[0]
    for q in P[1:]:
        W = W ^ q
    if kind in ('line', 'plane'):
        W = W ^ t.einf
    return W


def make_object(rng, t, kind):
    import numpy as np
    for _ in range(50):
        pts = [ipt(rng, t) for _ in range(NPTS[kind])]
        X = build(kind, pts, t)
        if abs(float((X * X).value[0])) <= 1e-3:
            continue
        if kind in ('point_pair', 'circle', 'sphere'):
            # a round through collinear / coplanar points is a flat in disguise (centre at infinity): degenerate, excluded
            carrier = X ^ t.einf
            if float(np.max(np.abs(carrier.value))) < 1e-3:
                continue
        return pts, X.normal()
    return None, None


def rigid(rng, t, what):
    """a rotor of the named kind with exactly representable parameters where possible"""
    import numpy as np
    one = 1 + 0 * t.e1
    if what == 'translated':
        return t.generate_translation_rotor(ipt(rng, t, -3, 3) + t.e1)
    if what == 'rotated':
        th = float(rng.choice([math.pi / 2, math.pi / 3, 1.0, 2.5]))
        ax = [t.e12, t.e13, t.e23][int(rng.integers(3))]
        return math.cos(th / 2) * one - math.sin(th / 2) * ax
    if what == 'dilated':
        return t.generate_dilation_rotor(float(rng.choice([0.5, 2.0, 3.0])))
    if what in ('general', 'wide'):
        T = t.generate_translation_rotor(ipt(rng, t, -3, 3))
        # 'wide': rotation angle in (pi, 2 pi), i.e. a rotor with negative scalar part
        th = float(rng.uniform(0.3, 2.8)) if what == 'general' else float(rng.uniform(math.pi + 0.2, 2 * math.pi - 0.3))
        ax = (t.e12 + 0.5 * t.e13 - 0.25 * t.e23)
        ax = ax / abs(ax)
        return T * (math.cos(th / 2) * one - math.sin(th / 2) * ax)
    raise ValueError(what)


def check_pair(res, t, kind, position, X1, X2, inp, site):
    import numpy as np
    even = {0, 2, 4}
    with common.guard(res, f'rotor_between_objects/{kind}/{position}', site, inp):
        R = t.rotor_between_objects(X1, X2)
        gr = set(int(g) for g in R.grades(eps=1e-7))
        nrm = R * ~R
        s = float(nrm.value[0])
        ok_unit = gr <= even and near(nrm, (1 if s > 0 else -1) + 0 * t.e1, 1.0)
        img = R * X1 * ~R
        if not (ok_unit and pm_near(img, X2, mag(X2))):
            res.violate('rotor_between_objects does not return an even unit versor carrying X1 to +-X2', inp, [sorted(gr), s, img.value.tolist()], X2.value.tolist(),
                        dict(site, op='rotor_between_objects', kind=kind, position=position))
        if kind == 'line':
            Rl = t.rotor_between_lines(X1, X2)
            nl = Rl * ~Rl
            if not (near(nl, 1 + 0 * t.e1, 1.0) and pm_near(Rl * X1 * ~Rl, X2, mag(X2))):
                res.violate('rotor_between_lines is not a unit rotor (R~R = +1) carrying L1 to +-L2', inp, [float(nl.value[0]), (Rl * X1 * ~Rl).value.tolist()], X2.value.tolist(),
                            dict(site, op='rotor_between_lines', kind=kind, position=position))
        if kind == 'plane':
            Rp = t.rotor_between_planes(X1, X2)
            if not pm_near(Rp * X1 * ~Rp, X2, mag(X2)):
                res.violate('rotor_between_planes does not carry P1 to +-P2', inp, (Rp * X1 * ~Rp).value.tolist(), X2.value.tolist(),
                            dict(site, op='rotor_between_planes', kind=kind, position=position))


def check_objects(res, rng, t, reps):
    import numpy as np
    site0 = dict(module='tools.g3c')
    # repaired defect 18, deterministically: antiparallel planes whose normal is parallel to the reference direction of the half-turn branch
    # (the plane through (0,2,0), (-3,-3,-2), (-1,3,2) has the bivector e12 + e13 + e23), and one in general position
    for pl_pts in ([(0, 2, 0), (-3, -3, -2), (-1, 3, 2)], [(1, 0, 0), (0, 1, 0), (0, 0, 1)], [(1, 0, 2), (0, 1, -1), (2, 2, 1)]):
        ptsd = [float(a) * t.e1 + float(b) * t.e2 + float(c) * t.e3 for a, b, c in pl_pts]
        Xa = build('plane', ptsd, t).normal()
        Vd = t.generate_translation_rotor(0.5 * t.e1 + 1.0 * t.e2 - 3.0 * t.e3)
        Xb = -(Vd * Xa * ~Vd).normal()
        if near(Xb, -Xa, 1.0, 1e-9):
            continue
        sited = dict(site0, kind='plane', position='antiparallel')
        inpd = dict(sited, points=[list(p) for p in pl_pts], X1=Xa.value.tolist(), X2=Xb.value.tolist())
        res.case(('pair-fixed', 'plane', 'antiparallel', str(pl_pts)), nontrivial=True)
        res.count('plane:antiparallel-fixed')
        check_pair(res, t, 'plane', 'antiparallel', Xa, Xb, inpd, sited)
    # repaired defect 19, deterministically: point pairs A^B and +-(B^C) that share the point B in different slots; for one orientation X2*X1 has the
    # scalar part -1, 1 + X2*X1 is null and the half turn of the special branch leaves the pair in a position of the same kind
    for tri in ([(4, -3, 3), (3, 4, 3), (-4, 3, 3)], [(0, 0, 2), (4, -4, -3), (3, 4, -2)], [(-2, 3, -1), (-2, 3, -2), (-1, 1, 0)], [(4, -3, 0), (-2, -4, 2), (-4, -2, 0)],
                [(-3, -3, 4), (0, 0, 0), (2, 2, 1)], [(1, 0, 0), (0, 0, 0), (0, 2, 0)]):      # the shared point at the origin: no half turn to take (defect 20)
        ptsd = [float(a) * t.e1 + float(b) * t.e2 + float(c) * t.e3 for a, b, c in tri]
        Xa = build('point_pair', ptsd[:2], t).normal()
        for sg in (1, -1):
            Xb = sg * build('point_pair', ptsd[1:], t).normal()
            sited = dict(site0, kind='point_pair', position='chained' if sg == 1 else 'chained_flipped')
            inpd = dict(sited, points=[list(p) for p in tri], X1=Xa.value.tolist(), X2=Xb.value.tolist())
            res.case(('pair-fixed', 'point_pair', 'chained', sg, str(tri)), nontrivial=True)
            res.count('point_pair:chained-fixed')
            check_pair(res, t, 'point_pair', sited['position'], Xa, Xb, inpd, sited)
    for kind in KINDS:
        for _ in range(reps):
            pts, X1 = make_object(rng, t, kind)
            if X1 is None:
                continue
            positions = ['general', 'equal', 'translated', 'rotated']
            if kind in ('point_pair', 'circle', 'sphere'):
                positions += ['dilated', 'concentric']
            if kind in ('line', 'plane'):
                positions += ['parallel', 'antiparallel']
            positions += ['intersecting', 'intersecting_flipped']
            if kind == 'point_pair':
                # point pairs that share a point, the shared point in different slots (A^B and +-(B^C)): for one of the two orientations
                # X2*X1 has scalar part -1 and 1 + X2*X1 is null (defect 19)
                positions += ['chained', 'chained_flipped']
            if kind in ('point_pair', 'circle'):
                # positions in which C*~C (C = 1 + X2*X1) is a negative scalar: the 'infinite roots' branch of the normalising root, R*~R = -1
                positions += ['disjoint', 'nested_opposite', 'coaxial_opposite']
                # and just outside such a position (general position, but C*~C has a tiny positive scalar-plus-norm next to a dominant grade-4 part)
                positions += ['near_disjoint']
            pts0, X10 = pts, X1
            for position in positions:
                pts, X1 = pts0, X10
                site = dict(site0, kind=kind, position=position)
                if position == 'general':
                    _, X2 = make_object(rng, t, kind)
                elif position == 'equal':
                    X2 = X1
                elif position in ('translated', 'rotated', 'dilated'):
                    V = rigid(rng, t, position)
                    X2 = (V * X1 * ~V).normal()
                elif position == 'concentric':
                    cen = sum(pts[1:], pts[0]) * (1.0 / len(pts))
                    Tm = t.generate_translation_rotor(-cen)
                    V = ~Tm * t.generate_dilation_rotor(float(rng.choice([0.5, 2.0]))) * Tm
                    X2 = (V * X1 * ~V).normal()
                elif position in ('disjoint', 'nested_opposite', 'coaxial_opposite', 'near_disjoint'):
                    # canonical round: centre c (integers), radius r, in the line c + s*e1 (point pair) / the plane through c spanned by e1, e2 (circle)
                    c = ipt(rng, t, -3, 3)
                    r = float(rng.choice([1.0, 2.0, 0.5, 3.0]))
                    cpts = [c + r * t.e1, c - r * t.e1] if kind == 'point_pair' else [c + r * t.e1, c + r * t.e2, c - r * t.e1]
                    X1 = build(kind, cpts, t).normal()
                    pts = cpts
                    if position == 'disjoint':
                        # same line / same plane, no common point, same orientation
                        V = t.generate_translation_rotor((2 * r + float(rng.choice([0.5, 1.0, 3.0]))) * t.e1)
                        X2 = (V * X1 * ~V).normal()
                    elif position == 'near_disjoint':
                        # as 'disjoint', then tilted out of the common line / plane by 2^-12 rad about e1 or lifted by 2^-12 along e3
                        V = t.generate_translation_rotor((2 * r + float(rng.choice([0.5, 1.0, 3.0]))) * t.e1)
                        small = 2.0 ** -12
                        if rng.random() < 0.5:
                            V = V * (math.cos(small / 2) * (1 + 0 * t.e1) - math.sin(small / 2) * t.e23)
                        else:
                            V = t.generate_translation_rotor(small * t.e3) * V
                        X2 = (V * X1 * ~V).normal()
                    elif position == 'nested_opposite':
                        Tm = t.generate_translation_rotor(-c)
                        V = ~Tm * t.generate_dilation_rotor(float(rng.choice([0.5, 0.25, 3.0]))) * Tm
                        if rng.random() < 0.5:
                            V = t.generate_translation_rotor(0.125 * r * t.e1) * V      # nested, not concentric
                        X2 = -(V * X1 * ~V).normal()
                    else:
                        # moved off its line / plane along the perpendicular direction, orientation reversed
                        V = t.generate_translation_rotor(float(rng.choice([0.5, 1.0, 2.0])) * t.e3)
                        X2 = -(V * X1 * ~V).normal()
                elif position == 'parallel':
                    # translate along a direction not in the flat
                    V = t.generate_translation_rotor(2.0 * t.e1 + 1.0 * t.e2 - 3.0 * t.e3)
                    X2 = (V * X1 * ~V).normal()
                elif position == 'antiparallel':
                    # parallel, at another place, with the opposite orientation (facing planes / lines running the other way): 1 + X2*X1 is null
                    V = t.generate_translation_rotor(float(rng.choice([1.0, 2.0, 0.5])) * t.e1 + float(rng.choice([1.0, -2.0])) * t.e2 - 3.0 * t.e3)
                    X2 = -(V * X1 * ~V).normal()
                elif position in ('intersecting', 'intersecting_flipped'):
                    # share the first defining point (and the same with the other orientation of X2)
                    p2 = [pts[0]] + [ipt(rng, t) for _ in range(NPTS[kind] - 1)]
                    X2 = build(kind, p2, t)
                    if abs(float((X2 * X2).value[0])) < 1e-3:
                        continue
                    X2 = X2.normal() if position == 'intersecting' else -X2.normal()
                elif position in ('chained', 'chained_flipped'):
                    p2 = [pts[1], ipt(rng, t)]
                    X2 = build(kind, p2, t)
                    if abs(float((X2 * X2).value[0])) < 1e-3:
                        continue
                    X2 = X2.normal() if position == 'chained' else -X2.normal()
                if X2 is None:
                    continue
                if near(X2, -X1, 1.0, 1e-9):
                    continue          # antipodal: excluded by the property
                inp = dict(site, points=[p.value[1:4].tolist() for p in pts], X1=X1.value.tolist(), X2=X2.value.tolist())
                res.case(('pair', kind, position, str(inp['points']), tuple(np.round(X2.value, 9).tolist())), nontrivial=position != 'equal',
                         sample=dict(kind=kind, position=position, points=inp['points']))
                res.count(f'{kind}:{position}')
                check_pair(res, t, kind, position, X1, X2, inp, site)
            pts, X1 = pts0, X10
            # motor_between_rounds: a round and its rigidly moved copy
            if kind in ('point_pair', 'circle', 'sphere'):
                V = rigid(rng, t, 'general')
                X2 = (V * X1 * ~V).normal()
                site = dict(site0, kind=kind, position='rigid')
                inp = dict(site, points=[p.value[1:4].tolist() for p in pts])
                res.case(('motor', kind, str(inp['points']), tuple(np.round(X2.value, 9).tolist())), nontrivial=True)
                res.count(f'{kind}:motor')
                with common.guard(res, f'motor_between_rounds/{kind}', site, inp):
                    M = t.motor_between_rounds(X1, X2)
                    ok = near(M * ~M, 1 + 0 * t.e1, 1.0) and near(M * t.einf * ~M, t.einf, 1.0) and pm_near(M * X1 * ~M, X2, mag(X2))
                    if not ok:
                        res.violate('motor_between_rounds is not a unit motor carrying the round onto its rigidly moved copy', inp, (M * X1 * ~M).value.tolist(), X2.value.tolist(),
                                    dict(site, op='motor_between_rounds', kind=kind))


def check_roots_logs(res, rng, t, reps):
    import numpy as np
    import clifford.tools.g3c.rotor_parameterisation as rp
    site0 = dict(module='tools.g3c')
    one = 1 + 0 * t.e1
    for i_rep in range(reps):
        TR = rigid(rng, t, 'general')
        S = t.generate_dilation_rotor(float(rng.choice([0.5, 0.75, 1.5, 2.0])))
        TRw = rigid(rng, t, 'wide')
        # screw motions whose rotation is just short of a full turn (R close to -T), translation along the axis. Within the conditioning of
        # `1 + R` (2^-10 rad short, translation 0.01) the roots are accurate to 1e-12 and must be; closer to the full turn with a larger axial
        # translation (2^-12 rad, 0.5) `square_roots_of_rotor` / `n_th_rotor_root` lose accuracy (1.3e-6; `general_logarithm` does not): recorded finding
        def screw(k_, d_):
            th_s = 2 * math.pi - 2.0 ** -k_
            return t.generate_translation_rotor(d_ * t.e3) * (math.cos(th_s / 2) * one - math.sin(th_s / 2) * t.e12)
        rotors = [('TR', TR, None), ('TRS', TR * S, None), ('TR', TRw, None), ('TR', -TR, None), ('TR', screw(10, 0.01), None)]
        if i_rep == 0:
            rotors.append(('TR', screw(12, 0.5), 'screw_near_full_turn'))
        for i_rl, (name, R, tagged) in enumerate(rotors):
            i_rl = i_rl + 6 * i_rep
            site = dict(site0, rotor=name)
            inp = dict(site, R=R.value.tolist())
            res.case(('roots', name, tuple(np.round(R.value, 9).tolist())), nontrivial=True, sample=dict(rotor=name))
            res.count('rotor_' + name)
            with common.guard(res, 'square_roots_of_rotor', site, inp):
                r = t.square_roots_of_rotor(R)[0]
                if not pm_near(r * r, R, mag(R)):
                    res.violate('square_roots_of_rotor(R)[0]^2 != +-R', inp, (r * r).value.tolist(), R.value.tolist(),
                                dict(site, op='square_root', **(dict(case=tagged) if tagged else {})))
            with common.guard(res, 'n_th_rotor_root', site, inp):
                for n in (2, 4):
                    r = t.n_th_rotor_root(R, n)
                    p = r
                    for _k in range(n - 1):
                        p = p * r
                    if not pm_near(p, R, mag(R), 1e-5):
                        res.violate('n_th_rotor_root(R, n)^n != +-R', dict(inp, n=n), p.value.tolist(), R.value.tolist(),
                                    dict(site, op='nth_root', n=n, **(dict(case=tagged) if tagged else {})))
            with common.guard(res, 'general_logarithm', site, inp):
                lg = rp.general_logarithm(R)
                back = lg.exp()
                if not pm_near(back, R, mag(R), 1e-5):
                    res.violate('exp(general_logarithm(R)) != +-R', inp, back.value.tolist(), R.value.tolist(), dict(site, op='general_logarithm'))
            if name == 'TR':
                with common.guard(res, 'ga_log/ga_exp', site, inp):
                    back = rp.ga_exp(rp.ga_log(R))
                    if not pm_near(back, R, mag(R), 1e-6):
                        res.violate('ga_exp(ga_log(R)) != +-R', inp, back.value.tolist(), R.value.tolist(), dict(site, op='ga_log'))
                with common.guard(res, 'TR rotors without rotation part', site, inp):
                    # a pure translation is a TR rotor too: exp / log are exact there (the rotation angle is exactly 0)
                    Tp = t.generate_translation_rotor(float(rng.integers(-4, 5)) * t.e1 + float(rng.integers(-4, 5)) * 0.5 * t.e2 + float(rng.integers(1, 5)) * 0.25 * t.e3)
                    res.case(('pure-translation', str(Tp.value.tolist())), nontrivial=True)
                    res.count('pure_translation')
                    back = rp.ga_exp(rp.ga_log(Tp))
                    if not pm_near(back, Tp, mag(Tp), 1e-9):
                        res.violate('ga_exp(ga_log(R)) != +-R for a pure translation rotor', dict(inp, R=Tp.value.tolist()), back.value.tolist(), Tp.value.tolist(),
                                    dict(site, op='ga_log', case='pure_translation'))
                    # interpolation between equal poses
                    for f_ in (0.0, 0.5, 1.0):
                        ie = rp.interpolate_TR_rotors(R, R, f_)
                        if not pm_near(ie, R, mag(R), 1e-9):
                            res.violate('interpolate_TR_rotors between equal poses does not return that pose', dict(inp, fraction=f_), ie.value.tolist(), R.value.tolist(),
                                        dict(site, op='interpolate_TR', case='equal'))
                    # poses with the same attitude (the relative rotor is a pure translation up to rounding): fraction 0 returns the first pose;
                    # fraction 1 is where arccos of a scalar part within rounding of 1 is ill-conditioned (recorded finding)
                    Rs = (Tp * R).normal()
                    i0 = rp.interpolate_TR_rotors(Rs, R, 0.0)
                    if not near(i0, R, mag(R)):
                        res.violate('interpolate_TR_rotors does not return its first end point at fraction 0', dict(inp, case='same attitude'), i0.value.tolist(), R.value.tolist(),
                                    dict(site, op='interpolate_TR', case='same_attitude_0'))
                    i1 = rp.interpolate_TR_rotors(Rs, R, 1.0)
                    if not pm_near(i1, Rs, mag(Rs), 1e-6):
                        res.violate('interpolate_TR_rotors does not return its second end point at fraction 1 for poses with the same attitude', dict(inp, case='same attitude'),
                                    i1.value.tolist(), Rs.value.tolist(), dict(site, op='interpolate_TR', case='same_attitude_1'))
                with common.guard(res, 'interpolate_TR_rotors', site, inp):
                    R0 = rigid(rng, t, 'general')
                    i0, i1 = rp.interpolate_TR_rotors(R, R0, 0.0), rp.interpolate_TR_rotors(R, R0, 1.0)
                    if not (near(i0, R0, mag(R0)) and pm_near(i1, R, mag(R), 1e-6)):
                        # the relative rotor R*~R0 with a scalar part within 1e-4 of -1 (the poses differ by almost a full turn) is the second
                        # branch point of the arccos in extractRotorComponents: recorded finding, tagged exactly; fraction 0 is never excused
                        sc_ = float((R * ~R0).value[0])
                        case_ = dict(case='relative_rotor_near_minus_one') if (sc_ < -1 + 1e-4 and near(i0, R0, mag(R0))) else {}
                        res.violate('interpolate_TR_rotors does not return its end points at fraction 0 and 1', dict(inp, R0=R0.value.tolist(), relative_scalar_part=sc_),
                                    [i0.value.tolist(), i1.value.tolist()], [R0.value.tolist(), R.value.tolist()], dict(site, op='interpolate_TR', **case_))
            if name == 'TR' and i_rl == 0:
                # the recorded finding at the second branch point, deterministically: two poses about the same axis whose half-angles differ by pi - 2e-4
                with common.guard(res, 'interpolate_TR_rotors near a full turn', site, inp):
                    one_ = 1 + 0 * t.e1
                    ax_ = (t.e12 + 0.5 * t.e13 - 0.25 * t.e23)
                    ax_ = ax_ / abs(ax_)
                    Ra = t.generate_translation_rotor(t.e1 + 2.0 * t.e2) * (math.cos(0.35) * one_ - math.sin(0.35) * ax_)
                    Rb = t.generate_translation_rotor(-1.0 * t.e1 + 0.5 * t.e3) * (math.cos(0.35 + math.pi - 2e-4) * one_ - math.sin(0.35 + math.pi - 2e-4) * ax_)
                    res.case(('interpolate_TR-near-full-turn',), nontrivial=True)
                    j0, j1 = rp.interpolate_TR_rotors(Rb, Ra, 0.0), rp.interpolate_TR_rotors(Rb, Ra, 1.0)
                    if not near(j0, Ra, mag(Ra)):
                        res.violate('interpolate_TR_rotors does not return its first end point at fraction 0', dict(inp, case='near full turn'), j0.value.tolist(), Ra.value.tolist(),
                                    dict(site, op='interpolate_TR', case='near_full_turn_0'))
                    if not pm_near(j1, Rb, mag(Rb), 1e-6):
                        res.violate('interpolate_TR_rotors does not return its end points at fraction 0 and 1', dict(inp, R=Rb.value.tolist(), R0=Ra.value.tolist(),
                                                                                                                relative_scalar_part=float((Rb * ~Ra).value[0])),
                                    [j0.value.tolist(), j1.value.tolist()], [Ra.value.tolist(), Rb.value.tolist()], dict(site, op='interpolate_TR', case='relative_rotor_near_minus_one'))
            with common.guard(res, 'interpolate_rotors', site, inp):
                R0 = rigid(rng, t, 'general')
                i0, i1 = rp.interpolate_rotors(R, R0, 0.0), rp.interpolate_rotors(R, R0, 1.0)
                if not (near(i0, R0, mag(R0)) and pm_near(i1, R, mag(R), 1e-5)):
                    res.violate('interpolate_rotors does not return its end points at fraction 0 and 1', inp, [i0.value.tolist(), i1.value.tolist()],
                                [R0.value.tolist(), R.value.tolist()], dict(site, op='interpolate'))


def run_job(job, tier, seed):
    import clifford.tools.g3c as t
    res = core.Result(job)
    rng = gen.rng_for(seed, 'C13', job)
    reps = (3 if tier == 'quick' else 15) if job == 'rotors' else 1
    with common.guard(res, 'objects', dict(module='tools.g3c')):
        check_objects(res, rng, t, reps)
    with common.guard(res, 'roots/logs', dict(module='tools.g3c')):
        check_roots_logs(res, rng, t, reps * 2)
    return res


def replay(obj):
    res = run_job('rotors', 'quick', 0)
    bad = [v for v in res.violations if core.match_known('C13', v) is None]
    for v in bad[:5]:
        print('still failing:', v['what'], v['site'])
    return 1 if bad else 0
