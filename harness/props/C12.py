"""C12 g3c fast and optimised kernels equal their definitions; primitives are exact."""
import math
from fractions import Fraction

from harness import core, gen, common

ID = 'C12'
LEAN_TARGETS = ['Props.C12']
TIE_A = ['g3c_translation_rotor_eq', 'g3c_dilation_rotor_eq', 'g3c_apply_rotor_eq', 'g3c_rotor_between_planes_eq'] + ['g3c_point_pair_end_points_eq', 'g3c_sphere_center_eq', 'g3c_fast_eq', 'g3c_rot_radius_eq'] + ['quat_q2m_eq', 'quat_m2q_eq', 'quat_rotor_eq', 'val_exp_eq']
OBLIGATIONS = [
    'C12.fast_up_is_up', 'C12.fast_down_inverts_up', 'C12.translation_rotor_unit', 'C12.translation_rotor_moves', 'C12.euc_dist_sq',
    'C12.apply_rotor_compose', 'C12.one_plus_X2X1_intertwines', 'C12.fast_dual_kernel', 'C12.model_relations',
    'C12.dilation_rotor', 'C12.rotation_rotor_unit', 'C12.rotation_rotor_turns', 'C12.rotation_rotor_fixes',
    'C12.point_pair_square', 'C12.point_pair_end_points', 'C12.point_pair_dot_einf', 'C12.sphere_centre', 'C12.sphere_radius',
    'C12.quaternion_matrix_rows', 'C12.matrix_quaternion_round_trip', 'C12.rotor_acts_as_matrix', 'C12.quaternion_rotor_norm', 'C12.rotor_quaternion_round_trip',
    'C12.ga_exp_is_series_exponential', 'C12.ga_exp_unit_rotor', 'C12.ga_exp_translation_branch',
]
PARTIAL = ['dilation/rotation rotors, point_pair_to_end_points, sphere centre/radius are proved with the transcendental value as a parameter constrained by its algebraic law '
           '(a^2-b^2 = 1, c^2+s^2 = 1, beta = -gamma); that libm satisfies these laws to rounding is evaluated',
           'g3 conversions: quaternion -> matrix -> quaternion (over the reals, branch selection included), rotor <-> quaternion and "the rotor acts as the matrix" are '
           'theorems tied by translate/quat2lean.py; matrix -> quaternion -> matrix (that every rotation matrix is the matrix of a unit quaternion) and binary64 rounding are evaluated',
           'ga_exp / val_exp: for every rotation-translation bivector of g3c the N-term series exponential has exactly the coded closed form with cos, sin/phi replaced '
           'by their N-term polynomials, and the closed form is a unit rotor (theorems); convergence of the polynomials to libm and the value-array code itself are evaluated',
           'projections, cost and the remaining parameterisation kernels, explicit and line-specialised rotor extractors: no Lean theorem '
           '(branch analysis / numerical kernels); decided by evaluation on the implementation']
RULE = ("Euclidean points/vectors with dyadic coordinates in a box of size 8, scales/radii in [1/4, 8], angles in (0, pi); random integer multivectors for the algebraic "
        "identities (fast kernels vs generic definitions, exact). Non-trivial = non-zero input; distinct = distinct (function, input)")
ASSUMPTIONS = ["libm sqrt/cos/sin/cosh/sinh accurate to a few ulp; tolerances 1e-9 relative to the magnitude of the quantities compared (1e-6 for iterated root/log based rotors)"]


def jobs(tier, seed):
    return [dict(name='fast', jit=False, timeout=2400), dict(name='fast_jit', jit=True, timeout=3000)]


def near(a, b, scale=1.0, tol=1e-9):
    import numpy as np
    a = np.asarray(getattr(a, 'value', a), dtype=float)
    b = np.asarray(getattr(b, 'value', b), dtype=float)
    if a.shape != b.shape or not np.all(np.isfinite(a)):
        return False
    return bool(np.max(np.abs(a - b)) <= tol * max(1.0, scale))


def mag(*xs):
    import numpy as np
    return max([1.0] + [float(np.max(np.abs(np.asarray(getattr(x, 'value', x), dtype=float)))) for x in xs])


def dy(rng, lo=-8, hi=8, den=4):
    return float(Fraction(int(rng.integers(lo * den, hi * den + 1)), den))


def pt(rng, t):
    return dy(rng) * t.e1 + dy(rng) * t.e2 + dy(rng) * t.e3


def nz_vec(rng, t):
    while True:
        v = pt(rng, t)
        if v.value.any():
            return v


def check_fast_vs_generic(res, rng, reps):
    """clause A: every fast or value-array variant returns the same multivector as its generic definition (exact on integer/dyadic data)"""
    import numpy as np
    import clifford.tools.g3c as t
    from clifford import MultiVector
    L = t.layout
    site = dict(module='tools.g3c')
    for _ in range(reps):
        x = pt(rng, t)
        X = t.up(x)
        # small integers: every product below stays exactly representable, so the comparison can be exact
        M = MultiVector(L, np.array(gen.int_mv(rng, 32, str(rng.choice(['dense', 'half', 'sparse3']))), dtype=float))
        R = MultiVector(L, np.array(gen.int_mv(rng, 32, str(rng.choice(['dense', 'half', 'sparse3']))), dtype=float))
        A = MultiVector(L, np.array(gen.int_mv(rng, 32, 'half'), dtype=float))
        inp = dict(site, x=x.value[1:4].tolist(), M=M.value.tolist(), R=R.value.tolist())
        res.case(('fast', tuple(x.value[1:4].tolist()), tuple(M.value.tolist()), tuple(R.value.tolist())), nontrivial=True, sample=dict(x=x.value[1:4].tolist()))
        sc = float(rng.choice([1.0, 0.5, -3.0, 4.0]))
        pairs = [
            ('fast_up = up', t.fast_up(x), t.up(x)), ('val_up', t.val_up(x.value), t.up(x).value),
            ('fast_down = down', t.fast_down(sc * X), t.down(sc * X)), ('val_down', t.val_down((sc * X).value), t.down(sc * X).value),
            ('fast_homo = homo', t.fast_homo(sc * X), t.homo(sc * X)), ('val_homo', t.val_homo((sc * X).value), t.homo(sc * X).value),
            ('fast_dual = I5*M', t.fast_dual(M), t.I5 * M), ('dual_func', t.dual_func(M.value), (t.I5 * M).value),
            ('meet', t.meet(M, A), t.I5 * ((t.I5 * M) ^ (t.I5 * A))), ('meet_val', t.meet_val(M.value, A.value), (t.I5 * ((t.I5 * M) ^ (t.I5 * A))).value),
            ('apply_rotor = R*M*~R', t.apply_rotor(M, R), R * M * ~R), ('val_apply_rotor', t.val_apply_rotor(M.value, R.value), (R * M * ~R).value),
            ('apply_rotor_inv', t.apply_rotor_inv(M, R, ~R), R * M * ~R),
            ('norm = abs', t.norm(M), abs(M)), ('val_norm', t.val_norm(M.value), abs(M)),
            ('mult_with_ninf', t.mult_with_ninf(M.value), (M * t.ninf).value),
            ('val_normalise_n_minus_1', t.val_normalise_n_minus_1((sc * X).value), t.normalise_n_minus_1(sc * X).value),
            ('val_generate_translation_rotor', t.val_generate_translation_rotor(x.value), t.generate_translation_rotor(x).value),
            ('generate_translation_rotor', t.generate_translation_rotor(x), 1 + t.ninf * x / 2),
            ('fast_normalInv', t.fast_normalInv(2 * t.e1 + t.e2), (2 * t.e1 + t.e2).normalInv()),
        ]
        if abs(float(M.mag2())) > 0:
            pairs += [('normalised = normal', t.normalised(M), M.normal()), ('val_normalised', t.val_normalised(M.value), M.normal().value)]
        for nm, got, exp in pairs:
            res.count('pair_' + nm.split(' ')[0])
            res.case((nm, tuple(x.value[1:4].tolist()), tuple(M.value.tolist()), tuple(R.value.tolist()), sc), nontrivial=True)
            exact = nm not in ('norm = abs', 'val_norm', 'normalised = normal', 'val_normalised', 'fast_normalInv')
            ok = (np.array_equal(np.asarray(getattr(got, 'value', got), dtype=float), np.asarray(getattr(exp, 'value', exp), dtype=float)) if exact
                  else near(got, exp, mag(exp), 1e-12))
            if not ok:
                res.violate(f'fast/val variant differs from its generic definition: {nm}', inp, np.asarray(getattr(got, 'value', got)).tolist(),
                            np.asarray(getattr(exp, 'value', exp)).tolist(), dict(site, op='fast:' + nm.split(' ')[0]))


def check_primitives(res, rng, reps):
    """clause B: geometric correctness"""
    import numpy as np
    import clifford.tools.g3c as t
    import clifford.tools.g3 as g3
    site = dict(module='tools.g3c')
    up = t.up
    for _ in range(reps):
        a, b, c, d = pt(rng, t), pt(rng, t), pt(rng, t), pt(rng, t)
        A, B, C, D = up(a), up(b), up(c), up(d)
        inp = dict(site, a=a.value[1:4].tolist(), b=b.value[1:4].tolist(), c=c.value[1:4].tolist(), d=d.value[1:4].tolist())
        res.case(('prim', str(inp)), nontrivial=True, sample=dict(a=inp['a'], b=inp['b']))
        da = float(np.linalg.norm(a.value[1:4] - b.value[1:4]))
        for clause in ('normalise_n_minus_1', 'euc_dist', 'point_pair', 'sphere', 'translation', 'dilation', 'rotation', 'conversions', 'intersection',
                       'project-plane', 'project-line', 'project-sphere', 'project-circle'):
            res.case((clause, str(inp)), nontrivial=True)
        # normalise_n_minus_1, euc_dist
        s = float(rng.choice([2.0, -0.5, 7.0]))
        if not near(t.normalise_n_minus_1(s * A), A, mag(A)):
            res.violate('normalise_n_minus_1 does not remove the scale', dict(inp, s=s), None, None, dict(site, op='normalise_n_minus_1'))
        if not near(t.euc_dist(A, B), da, da):
            res.violate('euc_dist is not the Euclidean distance', inp, t.euc_dist(A, B), da, dict(site, op='euc_dist'))
        # point pair end points
        if da > 0.2:
            P1, P2 = t.point_pair_to_end_points(A ^ B)
            sc = mag(A, B)
            if not (near(P1, A, sc, 1e-8) and near(P2, B, sc, 1e-8)):
                res.violate('point_pair_to_end_points(A^B) does not return (A, B)', inp, [P1.value.tolist(), P2.value.tolist()], [A.value.tolist(), B.value.tolist()],
                            dict(site, op='point_pair_to_end_points'))
            V = t.val_point_pair_to_end_points((A ^ B).value)
            if not (near(V[0], P1) and near(V[1], P2)):
                res.violate('val_point_pair_to_end_points differs from the object form', inp, None, None, dict(site, op='val_point_pair_to_end_points'))
        # sphere centre / radius: sphere through 4 points = dual of (centre - r^2/2 einf)
        rad = float(rng.choice([0.25, 0.5, 1.0, 2.0, 8.0]))
        Sd = up(c) - 0.5 * rad * rad * t.einf              # dual sphere (grade 1)
        S = Sd * t.I5                                      # direct sphere (grade 4)
        cen = t.normalise_n_minus_1(t.get_center_from_sphere(S)(1))
        if not near(cen, C, mag(C), 1e-8):
            res.violate('get_center_from_sphere does not return the centre', dict(inp, r=rad), cen.value.tolist(), C.value.tolist(), dict(site, op='sphere-centre'))
        if not near(t.get_radius_from_sphere(S), rad, rad, 1e-8):
            res.violate('get_radius_from_sphere does not return the radius', dict(inp, r=rad), t.get_radius_from_sphere(S), rad, dict(site, op='sphere-radius'))
        # rotors move points as named
        T = t.generate_translation_rotor(b)
        if not near(t.apply_rotor(A, T), up(a + b), mag(up(a + b))):
            res.violate('translation rotor does not move up(a) to up(a+b)', inp, None, None, dict(site, op='translation-rotor'))
        k = float(rng.choice([0.25, 0.5, 2.0, 3.0, 8.0]))
        Dl = t.generate_dilation_rotor(k)
        img = t.normalise_n_minus_1(t.apply_rotor(A, Dl)(1))
        if not near(img, up(k * a), mag(up(k * a)), 1e-8):
            res.violate('dilation rotor does not map the point of x to the point of k*x', dict(inp, k=k), img.value.tolist(), up(k * a).value.tolist(), dict(site, op='dilation-rotor'))
        th = float(rng.uniform(0.1, 3.0))
        if rng.random() < 0.4:
            # half turns and their neighbourhood: trace(M) -> -1, where the trace formula of the matrix -> quaternion conversion is 0/0
            th = float(rng.choice([math.pi, math.pi - 1e-8, math.pi - 1e-6, math.pi - 1e-4, 2.0 * math.pi / 3.0, math.pi / 2]))
        m, n_ = nz_vec(rng, t), nz_vec(rng, t)
        if float(abs(m ^ n_)) > 0.5:
            Rr = t.generate_rotation_rotor(th, m, n_)
            if not near(Rr * ~Rr, 1 + 0 * t.e1, 1.0, 1e-9):
                res.violate('rotation rotor is not a unit rotor', dict(inp, theta=th), None, None, dict(site, op='rotation-rotor'))
            # rotates m towards n by theta in their plane: angle between m and R m ~R is theta, and the plane is preserved
            mh = m / abs(m)
            img = Rr * mh * ~Rr
            cosang = float((mh | img).value[0])
            if not (abs(cosang - math.cos(th)) < 1e-9 and near((img ^ m ^ n_), 0 * t.e123, mag(m) * mag(n_), 1e-9)):
                res.violate('rotation rotor does not rotate by theta in the m,n plane', dict(inp, theta=th), cosang, math.cos(th), dict(site, op='rotation-rotor'))
            # quaternion / matrix / rotor conversions round-trip and act identically on vectors
            q = g3.rotor_to_quaternion(Rr)
            R2 = g3.quaternion_to_rotor(q)
            Mx = g3.rotor_to_rotation_matrix(Rr)
            R3 = g3.rotation_matrix_to_rotor(Mx)
            v = nz_vec(rng, t)
            rot_v = (Rr * v * ~Rr).value[1:4]
            ok = near(R2, Rr, 1.0, 1e-9) and (near(R3, Rr, 1.0, 1e-8) or near(R3, -Rr, 1.0, 1e-8)) and near(Mx @ v.value[1:4], rot_v, mag(v), 1e-9) \
                and near(g3.quaternion_to_matrix(q), Mx, 1.0, 1e-12) and (near(np.array(g3.rotation_matrix_to_quaternion(Mx)), q, 1.0, 1e-8) or near(-np.array(g3.rotation_matrix_to_quaternion(Mx)), q, 1.0, 1e-8))
            if not ok:
                res.violate('quaternion / matrix / rotor conversions do not round-trip or act differently on vectors', dict(inp, theta=th), None, None, dict(site, op='conversions'))
        # line-plane intersection lies on both
        Ln = (A ^ B ^ t.einf)
        Pl = (C ^ D ^ up(d + t.e1 + 2 * t.e2 - t.e3) ^ t.einf)
        if da > 0.2 and abs(float(Pl.mag2())) > 1e-6:
            Ln_n, Pl_n = Ln.normal(), Pl.normal()
            X = t.intersect_line_and_plane_to_point(Ln_n, Pl_n)
            if X is not None:
                sc = mag(X) * mag(Ln_n)
                if not (near(X ^ Ln_n, 0 * t.e1, sc, 1e-7) and near(X ^ Pl_n, 0 * t.e1, mag(X) * mag(Pl_n), 1e-7)):
                    res.violate('line-plane intersection point does not lie on both', inp, X.value.tolist(), None, dict(site, op='intersect'))
                V = t.val_intersect_line_and_plane_to_point(Ln_n.value, Pl_n.value)
                if not near(V, X.value, mag(X), 1e-12):
                    res.violate('val_intersect_line_and_plane_to_point differs from the object form', inp, None, None, dict(site, op='val_intersect'))
            # projections
            pts = [up(pt(rng, t)) for _ in range(2)]
            proj = t.project_points_to_plane(pts, Pl_n)
            again = t.project_points_to_plane(proj, Pl_n)
            for p0, p1, p2 in zip(pts, proj, again):
                if not (near(p1 ^ Pl_n, 0 * t.e1, mag(p1) * mag(Pl_n), 1e-7) and near(p2, p1, mag(p1), 1e-7)):
                    res.violate('projection onto a plane does not lie on it or is not idempotent', inp, p1.value.tolist(), None, dict(site, op='project-plane'))
            proj = t.project_points_to_line(pts, Ln_n)
            again = t.project_points_to_line(proj, Ln_n)
            for p0, p1, p2 in zip(pts, proj, again):
                if not (near(p1 ^ Ln_n, 0 * t.e1, mag(p1) * mag(Ln_n), 1e-7) and near(p2, p1, mag(p1), 1e-7)):
                    res.violate('projection onto a line does not lie on it or is not idempotent', inp, p1.value.tolist(), None, dict(site, op='project-line'))
            Sn = S.normal()
            far = [p for p in pts if abs(t.euc_dist(p, C)) > 0.1]
            proj = t.project_points_to_sphere(far, Sn)
            for p1 in proj:
                if not near(t.euc_dist(p1, C), rad, rad, 1e-7):
                    res.violate('projection onto a sphere does not lie on it', dict(inp, r=rad), t.euc_dist(p1, C), rad, dict(site, op='project-sphere'))
            Ci = (A ^ B ^ C)
            if abs(float(Ci.mag2())) > 1e-3:
                Cn = Ci.normal()
                proj = t.project_points_to_circle(pts, Cn)
                for p1 in proj:
                    if not near(p1 ^ Cn, 0 * t.e1, mag(p1) * mag(Cn), 1e-6):
                        res.violate('projection onto a circle does not lie on it', inp, (p1 ^ Cn).value.tolist(), 0, dict(site, op='project-circle'))


def check_costs(res, rng, reps):
    """clause C: cost and parameterisation kernels equal their reference formulas"""
    import numpy as np
    import clifford.tools.g3c as t
    import clifford.tools.g3c.cost_functions as cfn
    import clifford.tools.g3c.rotor_parameterisation as rp
    from clifford import taylor_expansions as te
    site = dict(module='tools.g3c.cost_functions')
    one = 1 + 0 * t.e1
    # a set compared with itself (the same list object on both sides, as scene simplification and clustering do) that mixes real and imaginary
    # rounds of one grade and an unnormalised object: the cost of the rotor from a to b is then not the cost from b to a, every entry is still
    # the element-wise cost
    with common.guard(res, 'cost matrix of a set with itself', site):
        from clifford.g3c import e1 as e1_, e2 as e2_, einf as ninf_, up as up_
        I5_ = t.I5 if hasattr(t, 'I5') else t.layout.pseudoScalar

        def sph(c, r):
            return (I5_ * (up_(c) - 0.5 * r * r * ninf_)).normal()
        S1, S2, S3 = sph(0 * e1_, 1.0), sph(1.25 * e1_ + 0.25 * e2_, 1.0), sph(3.0 * e1_, 1.0)
        objs = [t.meet(S1, S2).normal(), t.meet(S1, S3).normal(), t.random_circle(rng=np.random.default_rng(5)), 2.0 * t.random_circle(rng=np.random.default_rng(6))]
        for symm in (False, True):
            ref = np.array([[cfn.object_cost_function(a, b, symmetric=symm) for b in objs] for a in objs])
            for how, other in (('same list', objs), ('copied list', list(objs))):
                res.case(('cost-matrix-self', symm, how), nontrivial=True)
                res.count('cost_matrix_self')
                Mx = np.array(cfn.object_set_cost_matrix(objs, other, symmetric=symm), dtype=float)
                if symm:
                    # the symmetric cost of an object with itself involves the antipodal pair (X, -X), for which no rotor is defined
                    # (excluded in C13; the two implementations order a NaN differently in their minimum): the diagonal is not compared
                    Mx = Mx.copy()
                    np.fill_diagonal(Mx, 0.0)
                    ref = ref.copy()
                    np.fill_diagonal(ref, 0.0)
                if not near(Mx, ref, mag(ref), 1e-9):
                    res.violate('cost matrix of a set with itself is not the element-wise cost', dict(site, symmetric=symm, lists=how), np.asarray(Mx).tolist(), ref.tolist(),
                                dict(site, op='cost-matrix-self', symmetric=symm))
        ref = np.array([[cfn.object_cost_function(a, b) for b in objs] for a in objs])
        if not near(cfn.object_set_cost_matrix_sum(objs, objs), ref.sum(), float(abs(ref.sum())) + 1.0, 1e-9):
            res.violate('cost matrix sum of a set with itself is not the sum of the element-wise costs', dict(site), float(cfn.object_set_cost_matrix_sum(objs, objs)), float(ref.sum()),
                        dict(site, op='cost-matrix-self-sum'))
    res.case(('rotor_cost-identity',))
    if cfn.rotor_cost(one) != 0:
        res.violate('rotor_cost(1) != 0', site, cfn.rotor_cost(one), 0, dict(site, op='rotor_cost'))
    # the explicit extractor on rounds in the special positions where K = 2 + gamma (X1X2 + X2X1) has a negative scalar part and no
    # 4-vector part (disjoint spheres of the same orientation, nested spheres of opposite orientation), next to the ordinary ones
    def sphere_(c, r):
        c = np.asarray(c, float)
        pts = [t.up(c[0] * t.e1 + c[1] * t.e2 + c[2] * t.e3 + r * d) for d in (t.e1, t.e2, t.e3, -t.e1)]
        return (pts[0] ^ pts[1] ^ pts[2] ^ pts[3]).normal()
    c1 = [float(rng.integers(-2, 3)) for _ in range(3)]
    specials = [('overlapping', sphere_(c1, 1.0), sphere_([c1[0] + 1.0, c1[1] + 0.25, c1[2]], 1.25)),
                ('nested-same', sphere_(c1, 1.0), sphere_([c1[0] + 0.125, c1[1] + 0.25, c1[2]], 3.0)),
                ('disjoint-same', sphere_(c1, 1.0), sphere_([c1[0] + 5.0, c1[1] + 0.25, c1[2]], 1.25)),
                ('nested-opposite', sphere_(c1, 1.0), -sphere_([c1[0] + 0.125, c1[1] + 0.25, c1[2]], 3.0)),
                ('disjoint-far', sphere_(c1, 0.5), sphere_([c1[0] - 8.0, c1[1] + 2.0, c1[2] - 1.0], 2.0))]
    for pos_, S1, S2 in specials:
        res.case(('rotor_explicit-special', pos_, tuple(c1)), nontrivial=True)
        res.count('rotor_explicit_' + pos_)
        Re = t.layout.MultiVector(t.val_rotor_between_objects_explicit(S1.value, S2.value))
        Rr = t.rotor_between_objects(S1, S2)
        img = Re * S1 * ~Re
        if not ((near(Re, Rr, 1.0, 1e-7) or near(Re, -Rr, 1.0, 1e-7)) and (near(img, S2, mag(S2), 1e-7) or near(img, -S2, mag(S2), 1e-7))):
            res.violate('explicit rotor extractor disagrees with rotor_between_objects (up to sign) on spheres in a special position', dict(site, position=pos_, centre=c1),
                        Re.value.tolist(), Rr.value.tolist(), dict(site, op='rotor_explicit', position=pos_))
    for _ in range(reps):
        R = (t.generate_translation_rotor(pt(rng, t)) * t.generate_rotation_rotor(float(rng.uniform(0.1, 3.0)), nz_vec(rng, t), t.e1 + 0.5 * t.e3 + nz_vec(rng, t)))
        if not np.all(np.isfinite(R.value)):
            continue
        Rm1 = R - 1
        tt = R | t.e4
        ref = abs(float((Rm1 * ~Rm1).value[0])) + abs(float((tt * ~tt).value[0]))
        got = cfn.rotor_cost(R)
        res.case(('rotor_cost', tuple(R.value.tolist())), nontrivial=True)
        if not (near(got, ref, ref, 1e-9) and got >= 0):
            res.violate('rotor_cost(R) != |<(R-1)~(R-1)>| + |<t~t>| with t = R|e4', dict(site, R=R.value.tolist()), got, ref, dict(site, op='rotor_cost'))
        # object cost
        gens = [t.random_line, t.random_circle, t.random_plane, t.random_sphere, t.random_point_pair]
        g = gens[int(rng.integers(len(gens)))]
        s1, s2 = int(rng.integers(2 ** 31)), int(rng.integers(2 ** 31))
        X, Y = g(rng=np.random.default_rng(s1)), g(rng=np.random.default_rng(s2))
        Rxy = t.rotor_between_objects(X, Y)
        res.case(('object_cost', g.__name__, s1, s2), nontrivial=True)
        ref = abs(cfn.rotor_cost(Rxy))
        got = cfn.object_cost_function(X, Y)
        if not near(got, ref, ref, 1e-7):
            res.violate('object_cost_function(X,Y) != |rotor_cost(rotor_between_objects(X,Y))|', dict(site, gen=g.__name__, seeds=[s1, s2]), got, ref, dict(site, op='object_cost'))
        sym = cfn.object_cost_function(X, Y, symmetric=True)
        ref_sym = min(cfn.object_cost_function(X, Y), cfn.object_cost_function(X, -Y))
        if not near(sym, ref_sym, ref_sym, 1e-12):
            res.violate('symmetric object cost is not the minimum over +-Y', dict(site, gen=g.__name__, seeds=[s1, s2]), sym, ref_sym, dict(site, op='object_cost-symmetric'))
        # matrices and sums are element-wise
        Xs = [g(rng=np.random.default_rng(s1 + i)) for i in range(2)]
        Ys = [g(rng=np.random.default_rng(s2 + i)) for i in range(3)]
        Mx = cfn.object_set_cost_matrix(Xs, Ys)
        ref = np.array([[cfn.object_cost_function(a, b) for b in Ys] for a in Xs])
        if not near(Mx, ref, mag(ref), 1e-9) or not near(cfn.object_set_cost_matrix_sum(Xs, Ys), ref.sum(), float(ref.sum()), 1e-9):
            res.violate('cost matrix / matrix sum are not the element-wise costs', dict(site, gen=g.__name__), np.asarray(Mx).tolist(), ref.tolist(), dict(site, op='cost-matrix'))
        if not near(cfn.object_set_cost_sum(Xs, Ys[:2]), sum(cfn.object_cost_function(a, b) for a, b in zip(Xs, Ys)), 1.0, 1e-9):
            res.violate('object_set_cost_sum is not the sum of the pairwise costs', dict(site, gen=g.__name__), None, None, dict(site, op='cost-sum'))
        if g is t.random_line:
            lc = cfn.line_cost_function(X, Y)
            Y2 = -Y if float((X | Y).value[0]) < 0 else Y
            ref = abs(cfn.rotor_cost(t.rotor_between_lines(X, Y2)))
            if not near(lc, ref, ref, 1e-9):
                res.violate('line_cost_function is not |rotor_cost(rotor_between_lines)| with the sign convention', dict(site, seeds=[s1, s2]), lc, ref, dict(site, op='line_cost'))
            # the line-specialised extractor agrees with rotor_between_objects up to sign
            R1, R2 = t.rotor_between_lines(X, Y), t.rotor_between_objects(X, Y)
            if not (near(R1, R2, 1.0, 1e-7) or near(R1, -R2, 1.0, 1e-7)):
                res.violate('rotor_between_lines disagrees with rotor_between_objects (up to sign)', dict(site, seeds=[s1, s2]), R1.value.tolist(), R2.value.tolist(), dict(site, op='rotor_between_lines'))
            if not near(t.val_rotor_between_lines(X.value, Y.value), R1.value):
                res.violate('val_rotor_between_lines differs from the object form', dict(site), None, None, dict(site, op='val_rotor_between_lines'))
        Re = t.layout.MultiVector(t.val_rotor_between_objects_explicit(X.value, Y.value))
        Rr = t.rotor_between_objects(X, Y)
        if not (near(Re, Rr, 1.0, 1e-6) or near(Re, -Rr, 1.0, 1e-6)):
            res.violate('explicit rotor extractor disagrees with rotor_between_objects (up to sign)', dict(site, gen=g.__name__, seeds=[s1, s2]), Re.value.tolist(), Rr.value.tolist(),
                        dict(site, op='rotor_explicit'))
        # ga_exp / TR_biv_params_to_rotor = series exponential of the same bivector
        x = np.array([dy(rng, -2, 2, 8) for _ in range(3)] + [float(rng.uniform(-1.2, 1.2)) for _ in range(3)])
        xs_ = []
        if np.any(np.abs(x[3:]) > 1e-3):
            xs_.append(('general', x))
        # rotation bivectors whose coefficients cancel (a rotation in the plane of e2 and e1 + e3 is theta (e23 - e12)), with and without translation
        a_, b_ = float(rng.uniform(0.2, 1.2)), float(rng.uniform(-1.2, 1.2))
        xs_.append(('cancelling', np.array([0.0, 0.0, 0.0, a_, b_, -(a_ + b_)])))
        xs_.append(('cancelling', np.array([x[0], x[1], -(x[0] + x[1]), a_, -a_, 0.0])))
        # no rotation part at all (a pure translation bivector t*ninf: exp = 1 + B exactly)
        xs_.append(('translation-only', np.array([x[0], x[1], x[2], 0.0, 0.0, 0.0])))
        for kind_, xx in xs_:
            Bv = t.layout.MultiVector(rp.val_TR_biv_params_to_biv(xx))
            ser = te.exp(Bv, 40)
            res.case(('ga_exp', kind_, tuple(xx.tolist())), nontrivial=True)
            res.count('ga_exp_' + kind_)
            if not (near(rp.ga_exp(Bv), ser, mag(ser), 1e-8) and near(rp.TR_biv_params_to_rotor(xx), ser, mag(ser), 1e-8)):
                res.violate('ga_exp / TR_biv_params_to_rotor differ from the series exponential of the same bivector', dict(site, x=xx.tolist(), kind=kind_),
                            rp.ga_exp(Bv).value.tolist(), ser.value.tolist(), dict(site, op='ga_exp', kind=kind_))


def check_planes(res, rng, reps):
    import numpy as np
    import clifford.tools.g3c as t
    site = dict(module='tools.g3c')
    for _ in range(reps):
        P1 = t.random_plane(rng=np.random.default_rng(int(rng.integers(2 ** 31))))
        P2 = t.random_plane(rng=np.random.default_rng(int(rng.integers(2 ** 31))))
        R = t.rotor_between_planes(P1, P2)
        res.case(('planes', tuple(P1.value.tolist()), tuple(P2.value.tolist())), nontrivial=True)
        img = R * P1 * ~R
        if not (near(img, P2, 1.0, 1e-8) or near(img, -P2, 1.0, 1e-8)):
            res.violate('rotor_between_planes does not carry P1 to P2', dict(site), img.value.tolist(), P2.value.tolist(), dict(site, op='rotor_between_planes'))
        if not near(t.val_rotor_rotor_between_planes(P1.value, P2.value), R.value):
            res.violate('val_rotor_rotor_between_planes differs from the object form', dict(site), None, None, dict(site, op='val_rotor_between_planes'))


def run_job(job, tier, seed):
    res = core.Result(job)
    rng = gen.rng_for(seed, 'C12', job)
    reps = (30 if tier == 'quick' else 150) if job == 'fast' else 3
    for fn in (check_fast_vs_generic, check_primitives, check_costs, check_planes):
        with common.guard(res, fn.__name__, dict(module='tools.g3c')):
            fn(res, rng, reps)
    return res


def replay(obj):
    res = run_job('fast', 'quick', 0)
    for v in res.violations[:5]:
        print('still failing:', v['what'], v['site'])
    return 1 if res.violations else 0
