"""C15 classify() and Blade.mv are mutually inverse on conformal blades."""
from fractions import Fraction

from harness import core, gen, common

ID = 'C15'
LEAN_TARGETS = ['Props.C15']
TIE_A = ['classify_translate_eq', 'classify_blade_mv_eq', 'classify_tests_eq']
OBLIGATIONS = ['C15.translate_origin', 'C15.translate_fixes_einf', 'C15.translate_unit',
               'C15.direction_mv', 'C15.direction_is_classified', 'C15.direction_is_recovered', 'C15.flat_is_classified', 'C15.round_mv', 'C15.round_is_classified',
               'C15.translation_commutes_with_inner', 'C15.translation_commutes_with_outer', 'C15.translation_fixes_scalars',
               'C15.direction_element_invariant', 'C15.round_location_recovered',
               'C15.coded_vector_inner_blade', 'C15.coded_blade_inner_vector', 'C15.coded_vector_wedge_blade', 'C15.coded_blade_wedge_vector', 'C15.vectors_are_directions',
               'C15.dualflat_is_orthogonal_to_einf', 'C15.dualflat_undual',
               'C15.coded_inner_is_vdot', 'C15.coded_inner_is_dotv', 'C15.coded_outer_is_vwedge', 'C15.coded_outer_is_wedgev',
]
PARTIAL = ['the floating-point == 0 tests, grade bookkeeping / class aliases and the error branches have no Lean theorem: '
           'decided by evaluation on the implementation',
           'the abstract identities write v|X, X|v, v^X, X^v by the half-sum forms; these forms are proved EQUAL to the coded inner / outer products on (vector, homogeneous) '
           'operands (coded_inner_is_vdot ... coded_outer_is_wedgev); the homogeneity of the operands - the precondition of classify - stays a hypothesis']
RULE = ("conformalised Cl(2), Cl(3), Cl(4); direction blades of every grade 0..n built as outer products of integer vectors with any sign and dyadic scale; dyadic locations "
        "and radii (real and imaginary); every category (Direction, Tangent, Round, Flat, DualFlat). Non-trivial = direction of grade >= 1; distinct = distinct (n, category, parameters)")
ASSUMPTIONS = ["tolerance 1e-9 relative to the magnitude of the blade"]


def jobs(tier, seed):
    return [dict(name='classify', jit=False, timeout=2400), dict(name='classify_jit', jit=True, timeout=2400)]


def near(a, b, scale=1.0, tol=1e-9):
    import numpy as np
    a = np.asarray(getattr(a, 'value', a), dtype=complex)
    b = np.asarray(getattr(b, 'value', b), dtype=complex)
    return bool(a.shape == b.shape and np.all(np.isfinite(a)) and np.max(np.abs(a - b)) <= tol * max(1.0, scale))


def mag(*xs):
    import numpy as np
    return max([1.0] + [float(np.max(np.abs(np.asarray(getattr(x, 'value', x), dtype=complex)))) for x in xs])


def check_n(res, n, rng, reps):
    import numpy as np
    import clifford as cf
    from clifford.tools import classify as cl
    base, _ = cf.Cl(n)
    Lc, blades, stuff = cf.conformalize(base)
    E = Lc.basis_vectors_lst[:n]
    zero = 0 * E[0]
    site = dict(n=n)
    aliases = {('Direction', 1): cl.InfinitePoint, ('Flat', 2): cl.PointFlat, ('Flat', 3): cl.Line, ('Flat', 4): cl.Plane,
               ('Round', 2): cl.PointPair, ('Round', 3): cl.Circle, ('Round', 4): cl.Sphere, ('Tangent', 1): cl.Point}

    def ivec():
        while True:
            c = [int(x) for x in rng.integers(-3, 4, size=n)]
            if any(c):
                return sum((ci * e for ci, e in zip(c, E)), zero)

    def direction(k):
        if k == 0:
            return float(rng.choice([1, -1, 2, -0.5, 3])) * (1 + zero)
        for _ in range(30):
            W = ivec()
            for _j in range(k - 1):
                W = W ^ ivec()
            if W.value.any():
                return W * float(rng.choice([1, -1, 0.5, -2, 4]))
        return None

    def loc():
        return sum((float(Fraction(int(rng.integers(-12, 13)), 4)) * e for e in E), zero)
    def plan():
        if n == 4:
            # repaired defect 17, deterministically: a large direction 2-blade with a small radius (rounding residue above the absolute eps)
            Ef = 48.0 * (E[0] ^ E[1]) + 24.0 * (E[0] ^ E[2]) - 12.0 * (E[0] ^ E[3]) + 24.0 * (E[1] ^ E[2]) + 36.0 * (E[1] ^ E[3]) + 24.0 * (E[2] ^ E[3])
            yield 2, Ef, -0.5 * E[0] + 0.25 * E[1] + 2.75 * E[2] - 1.75 * E[3], 2.0 ** -10
        for _ in range(reps):
            for k_ in range(0, n + 1):
                Ed_ = direction(k_)
                if Ed_ is None:
                    continue
                p_ = loc()
                # radii: ordinary ones and exactly representable small ones (rho^2 E^2 far below 1e-8, far above the library's 1e-12 zero tolerance)
                yield k_, Ed_, p_, float(rng.choice([0.5, 1.0, 1.5, 2.0, 3.0, 2.0 ** -14, 2.0 ** -15, 2.0 ** -10]))
    for k, Ed, p, rho in plan():
        if True:
            cases = [('Direction', lambda: cl.Direction(Ed), {}),
                     ('Tangent', lambda: cl.Tangent(Ed, p), dict(location=p)),
                     ('Round', lambda: cl.Round(Ed, p, rho), dict(location=p, radius=rho)),
                     ('Round-imag', lambda: cl.Round(Ed, p, rho * 1j), dict(location=p, radius=rho * 1j))]
            if k <= n:
                cases.append(('Flat', lambda: cl.Flat(Ed, p), {}))
                cases.append(('DualFlat', lambda: cl.DualFlat(cl.Flat(Ed, p)), {}))
            for cat, mk, params in cases:
                inp = dict(site, category=cat, k=k, direction=Ed.value.tolist(), location=p.value[1:n + 1].tolist(), radius=str(rho))
                res.case(('classify', n, cat, k, tuple(Ed.value.tolist()), tuple(p.value.tolist()), rho), nontrivial=k >= 1,
                         sample=dict(n=n, category=cat, k=k, location=inp['location']))
                res.count('category_' + cat)
                with common.guard(res, 'classify/' + cat, site, inp):
                    B = mk()
                    X = B.mv
                    sc = mag(X)
                    if not X.value.any():
                        continue
                    C = cl.classify(X)
                    base_cat = {'Round-imag': cl.Round, 'Round': cl.Round, 'Tangent': cl.Tangent, 'Direction': cl.Direction, 'Flat': cl.Flat, 'DualFlat': cl.DualFlat}[cat]
                    if not isinstance(C, base_cat) or (cat in ('Round', 'Round-imag') and isinstance(C, cl.Tangent)):
                        res.violate('classify returns a different category', inp, type(C).__name__, cat, dict(site, op='category', category=cat, k=k))
                        continue
                    if type(C) is not type(B):
                        res.violate('classify returns a different grade-specific type', inp, type(C).__name__, type(B).__name__, dict(site, op='alias', category=cat, k=k))
                    g = int(next(iter(X.grades())))
                    key = ('Tangent' if cat == 'Tangent' else base_cat.__name__, g)
                    if key in aliases and not isinstance(C, aliases[key]):
                        res.violate('classify does not return the named alias for this grade', inp, type(C).__name__, aliases[key].__name__, dict(site, op='alias-name', category=cat, k=k))
                    if not near(C.mv, X, sc):
                        res.violate('classify(blade.mv).mv differs from the original multivector', inp, C.mv.value.tolist(), X.value.tolist(), dict(site, op='mv-roundtrip', category=cat, k=k))
                    if cat != 'DualFlat':
                        if not near(C.direction, Ed, mag(Ed)):
                            res.violate('recovered direction differs from the parameter', inp, C.direction.value.tolist(), Ed.value.tolist(), dict(site, op='direction', category=cat, k=k))
                    if 'radius' in params:
                        # rad2 = X * gradeInvol(X) cancels terms of size |p|^2 |E|^2: absolute error ~1e-15 of that size in radius^2
                        rtol = 1e-9 * rho + 1e-13 * (1 + mag(p)) ** 2 / rho
                        if abs(complex(C.radius) - complex(params['radius'])) > rtol:
                            res.violate('recovered radius differs from the parameter', inp, str(C.radius), str(params['radius']), dict(site, op='radius', category=cat, k=k))
                        # a real radius comes back real, an imaginary one purely imaginary (exactly: sqrt of |radius^2| times 1 or 1j)
                        cr = complex(C.radius)
                        if (cat == 'Round' and (isinstance(C.radius, complex) or cr.imag != 0)) or (cat == 'Round-imag' and cr.real != 0):
                            res.violate('recovered radius is not purely real / purely imaginary', inp, repr(C.radius), str(params['radius']),
                                        dict(site, op='radius-kind', category=cat, k=k))
                    if 'location' in params and cat != 'Tangent' or cat == 'Tangent':
                        if cat in ('Round', 'Round-imag', 'Tangent') and not near(C.location, p, mag(p) * mag(Ed)):
                            res.violate('recovered location differs from the parameter', inp, C.location.value.tolist(), p.value.tolist(), dict(site, op='location', category=cat, k=k))
    # error contracts
    res.case(('errors', n))
    with common.guard(res, 'classify errors', site):
        try:
            cl.classify(E[0] + (E[0] ^ E[1] if n >= 2 else 1 + zero))
            res.violate('multi-grade input does not raise ValueError', site, 'classified', 'ValueError', dict(site, op='error-multigrade'))
        except ValueError:
            pass
        try:
            cl.classify(base.basis_vectors_lst[0])
            res.violate('a multivector of a non-conformal layout does not raise ValueError', site, 'classified', 'ValueError', dict(site, op='error-layout'))
        except ValueError:
            pass


def run_job(job, tier, seed):
    res = core.Result(job)
    rng = gen.rng_for(seed, 'C15', job)
    if job == 'classify':
        for n in (2, 3, 4):
            with common.guard(res, f'n={n}', dict(n=n)):
                check_n(res, n, rng, (4 if n < 4 else 2) if tier == 'quick' else 15)
    elif job == 'classify_jit':
        with common.guard(res, 'n=3', dict(n=3)):
            check_n(res, 3, rng, 2)
    else:
        raise ValueError(job)
    return res


def replay(obj):
    res = run_job('classify', 'quick', 0)
    for v in res.violations[:5]:
        print('still failing:', v['what'], v['site'])
    return 1 if res.violations else 0
