"""C08 Conformal (and other shipped) point embeddings satisfy the model identities."""
from fractions import Fraction

from harness import core, gen, common

ID = 'C08'
LEAN_TARGETS = ['Props.C08']
# Tie A: equivalence theorems generated from the current source by translate/py2lean.py (checked on every run)
TIE_A = ['sig_%s_documented' % m for m in ('g2c', 'g3c', 'gac', 'dpga', 'dg3c')] + ['conf_consts_eq', 'conf_up_eq', 'conf_homo_eq', 'conf_down_eq'] + ['meth_commutator_eq', 'meth_anticommutator_eq'] + ['gac_down_up', 'gac_down_up_model', 'dpga_down_up', 'dpga_down_up_model', 'dg3c_down_up', 'dg3c_down_up_model']
OBLIGATIONS = [
    'C08.eo_is_null', 'C08.einf_is_null', 'C08.eo_dot_einf_eq', 'C08.E0_squares_to_one', 'C08.up_is_null', 'C08.up_dot_einf_eq',
    'C08.distance_identity', 'C08.homo_removes_scale', 'C08.down_up_id', 'C08.model_satisfies_relations',
    'C08.inner_is_half_anticommutator', 'C08.wedge_is_half_commutator', 'C08.vector_wedge_bivector',
    'C08.coded_eo_dot_einf', 'C08.coded_up_dot_einf', 'C08.coded_distance', 'C08.coded_homo_scale', 'C08.coded_E0', 'C08.coded_down_up',
]
PARTIAL = ['the null / square identities (eo*eo, einf*einf, up(x)*up(x), E0*E0) are statements about the geometric product and hold in the model through '
           'model_satisfies_relations; the identities with | and ^ are joined to the coded tables by the composite theorems coded_* (model of the conformalised layout over Q); '
           'binary64 rounding of the real evaluation is outside',
           'gac / dpga / dg3c: down(up(x)) = x is a generated theorem (translate/shipped2lean.py) from the generator relations of the module\'s signature, for all rational '
           'coordinates, also instantiated in the model Cl n sig; `^` and `|` enter by the half-sum formulas (same join as above), the coefficient reads `[()]`, `.value[1:4]` '
           'as the model\'s coefficient functionals; float rounding of the real evaluation is outside']
RULE = ("base signatures (p,q) with p+q<=4 (quick) / <=6 (thorough), every split; base vectors with integer and dyadic coordinates over 2^-10..2^20, "
        "non-zero dyadic scales; gac/dpga/dg3c points with dyadic coordinates. Non-trivial = non-zero base vector; distinct = distinct (p,q,x,y,s)")
ASSUMPTIONS = ["float results on dyadic inputs are exact when all intermediate values fit in 53 bits; otherwise compared with the exact rational value "
               "within 1e-12 relative to the magnitude of the terms"]


def jobs(tier, seed):
    return [dict(name='conformal', jit=False, timeout=2400), dict(name='conformal_jit', jit=True, timeout=2400)]


def fr(v):
    return [core.frac(x) for x in v]


def approx(obs, exact, scale):
    tol = Fraction(1, 10 ** 12) * max(1, scale)
    import math
    if any(isinstance(o, float) and not math.isfinite(o) for o in obs):
        return False          # NaN / inf observed: never close to an exact value
    return all(abs(core.frac(o) - e) <= tol for o, e in zip(obs, exact))


def base_vec(rng, n, wide):
    if wide:
        return [Fraction(int(rng.integers(-2 ** 10, 2 ** 10)), 1) * Fraction(2) ** int(rng.integers(-10, 11)) for _ in range(n)]
    return [Fraction(int(rng.integers(-16, 17)), 2 ** int(rng.integers(0, 4))) for _ in range(n)]


def check_conformal(res, p, q, rng, reps, ob):
    import numpy as np
    import clifford as cf
    n = p + q
    base, _ = cf.Cl(p, q)
    Lc, blades, stuff = cf.conformalize(base)
    site = dict(p=p, q=q)
    sig = [int(x) for x in Lc.sig]
    if sig != [1] * p + [-1] * q + [1, -1]:
        res.violate('conformalize does not append the signature [+1, -1]', site, sig, None, dict(site, op='sig'))
    N = Lc.gaDims
    eo, einf, E0, ep, en = (stuff[k] for k in ('eo', 'einf', 'E0', 'ep', 'en'))
    up, down, homo = stuff['up'], stuff['down'], stuff['homo']
    zero = [Fraction(0)] * N
    one = [Fraction(1)] + [Fraction(0)] * (N - 1)
    tag = f"C{p}_{q}"
    # constants against the model
    ob.op(tag, Lc, 'cconst', [], ";".join(core.mvstr(fr(m.value)) for m in (ep, en, eo, einf, E0, Lc.I_base)))
    res.case(('constants', p, q), sample=dict(p=p, q=q, eo=eo.value.tolist()[:8]))
    checks = [('eo*eo', fr((eo * eo).value), zero), ('einf*einf', fr((einf * einf).value), zero),
              ('eo|einf', fr((eo | einf).value), [-x for x in one]), ('E0*E0', fr((E0 * E0).value), one),
              ('E0 = einf^eo', fr(E0.value), fr((einf ^ eo).value)),
              ('I_base', fr(Lc.I_base.value), fr((Lc.pseudoScalar * E0).value)),
              ('ep*ep', fr((ep * ep).value), one), ('en*en', fr((en * en).value), [-x for x in one])]
    for nm, got, exp in checks:
        if got != exp:
            res.violate(f'conformal constant identity fails: {nm}', site, [core.fstr(x) for x in got], [core.fstr(x) for x in exp], dict(site, op='const:' + nm))
    E = Lc.basis_vectors_lst
    bsig = sig[:n]
    for r in range(reps):
        wide = (r % 3 == 2)
        xs, ys = base_vec(rng, n, wide), base_vec(rng, n, wide)
        if p >= 1 and q >= 1 and r % 4 == 1:
            # a non-zero NULL base vector (mixed base signatures have them): a base vector like any other, up(x) = x + eo
            i_, j_ = int(rng.integers(0, p)), p + int(rng.integers(0, q))
            c_ = Fraction(int(rng.choice([1, -2, 3])), 2 ** int(rng.integers(0, 3)))
            xs = [Fraction(0)] * n
            xs[i_], xs[j_] = c_, c_ * int(rng.choice([1, -1]))
        if r % 5 == 0:
            ys = [Fraction(0)] * n            # the origin
        x = sum((float(c) * e for c, e in zip(xs, E[:n])), 0 * E[0]) if n else 0 * ep
        y = sum((float(c) * e for c, e in zip(ys, E[:n])), 0 * E[0]) if n else 0 * ep
        xb = base.MultiVector(np.array([0.0] + [float(c) for c in xs] + [0.0] * (base.gaDims - 1 - n))) if n else None
        X, Y = up(x), up(y)
        inp = dict(site, x=[core.fstr(c) for c in xs], y=[core.fstr(c) for c in ys], wide=wide)
        nt = any(xs)
        res.case(('up', p, q, tuple(xs), tuple(ys)), nontrivial=nt, sample=dict(p=p, q=q, x=[core.fstr(c) for c in xs]))
        res.count('wide' if wide else 'narrow')
        qx = sum(s * c * c for s, c in zip(bsig, xs))
        qy = sum(s * c * c for s, c in zip(bsig, ys))
        b = sum(s * c * d for s, c, d in zip(bsig, xs, ys))
        scale = max([1] + [abs(c) for c in xs + ys]) ** 2 * max(1, n)
        scale = max(1, scale)
        # the model computes the same embedding exactly
        if not wide:
            ob.op(tag, Lc, 'cup', [core.mvstr(fr(x.value))], X.value, nontrivial=nt)
        if xb is not None and fr(up(xb).value) != fr(X.value):
            res.violate('up() of a base-layout vector differs from up() of the same vector in the conformal layout', inp, None, None, dict(site, op='up-base'))
        if not approx((X * X).value, zero, scale * scale):
            res.violate('up(x) is not null', inp, (X * X).value.tolist(), 0, dict(site, op='up-null'))
        if not approx((X | einf).value, [-c for c in one], scale):
            res.violate('up(x)|einf != -1', inp, (X | einf).value.tolist(), -1, dict(site, op='up-einf'))
        d2 = qx + qy - 2 * b
        if not approx((X | Y).value, [-d2 / 2] + zero[1:], scale * scale):
            res.violate('up(x)|up(y) != -(x-y)^2/2', inp, (X | Y).value.tolist(), core.fstr(-d2 / 2), dict(site, op='distance'))
        # the scale of a conformal point is arbitrary: also weights far from 1 (powers of two: every product stays exact)
        for s in (Fraction(1), Fraction(int(rng.choice([-3, 2, 5, -7])), 2 ** int(rng.integers(0, 5))),
                  Fraction(int(rng.choice([-1, 1])), 2 ** int(rng.choice([24, 30, 40]))), Fraction(int(rng.choice([-1, 1])) * 2 ** int(rng.choice([24, 30])))):
            res.case(('down', p, q, tuple(xs), s), nontrivial=nt)
            try:
                D = down(float(s) * X)
                H = homo(float(s) * X)
            except (ValueError, ZeroDivisionError, FloatingPointError) as e:
                res.violate('down / homo raises on a conformal point with a non-zero weight', dict(inp, s=core.fstr(s)), repr(e)[:200],
                            [core.fstr(c) for c in fr(x.value)], dict(site, op='down-raises', error=type(e).__name__))
                continue
            if not approx(D.value, fr(x.value), scale):
                res.violate('down(s*up(x)) != x', dict(inp, s=core.fstr(s)), D.value.tolist(), [core.fstr(c) for c in fr(x.value)], dict(site, op='down'))
            if not approx(H.value, fr(X.value), scale):
                res.violate('homo does not remove the scale', dict(inp, s=core.fstr(s)), H.value.tolist(), None, dict(site, op='homo'))
            if not wide and abs(s) <= 64 and abs(s) >= Fraction(1, 64):
                ob.op(tag, Lc, 'cdown', [core.mvstr([c * s for c in fr(X.value)])], D.value, nontrivial=nt)


def check_shipped(res, rng, reps, tier):
    import numpy as np
    import importlib
    # g2c / g3c: the generic conformal layer
    for name, n in (('g2c', 2), ('g3c', 3)):
        mod = importlib.import_module('clifford.' + name)
        for _ in range(reps):
            xs = base_vec(rng, n, False)
            x = sum(float(c) * getattr(mod, f'e{i + 1}') for i, c in enumerate(xs))
            res.case((name, tuple(xs)), nontrivial=any(xs))
            if fr(mod.down(mod.up(x)).value) != fr(x.value):
                res.violate(f'{name}: down(up(x)) != x', dict(module=name, x=[core.fstr(c) for c in xs]), mod.down(mod.up(x)).value.tolist(), None, dict(module=name, op='down-up'))
            if fr((mod.up(x) * mod.up(x)).value) != [0] * mod.layout.gaDims:
                res.violate(f'{name}: up(x) is not null', dict(module=name, x=[core.fstr(c) for c in xs]), None, None, dict(module=name, op='up-null'))
    import clifford.gac as gac
    import clifford.dpga as dpga
    for rr_ in range(reps):
        a, b = base_vec(rng, 2, False)
        if rr_ == 0:
            a, b = Fraction(0), Fraction(0)           # the origin
        x = float(a) * gac.e1 + float(b) * gac.e2
        res.case(('gac', a, b), nontrivial=bool(a or b))
        d = gac.down(gac.up(x))
        if fr(d.value) != fr(x.value):
            res.violate('gac: down(up(x)) != x', dict(module='gac', x=[core.fstr(a), core.fstr(b)]), d.value.tolist(), x.value.tolist(), dict(module='gac', op='down-up'))
        v = [float(c) for c in base_vec(rng, 3, False)]
        if rr_ == 0:
            v = [0.0, 0.0, 0.0]
        res.case(('dpga', tuple(v)), nontrivial=any(v))
        d = dpga.down(dpga.up(v))
        if [core.frac(t) for t in np.asarray(d).tolist()] != [core.frac(t) for t in v]:
            res.violate('dpga: down(up(x)) != x', dict(module='dpga', x=v), np.asarray(d).tolist(), v, dict(module='dpga', op='down-up'))
    if tier == 'thorough' or True:
        import clifford.dg3c as dg3c
        for rr_ in range(max(2, reps // 4)):
            v = [float(c) for c in base_vec(rng, 3, False)]
            if rr_ == 0:
                v = [0.0, 0.0, 0.0]           # the origin: up(0) = eo1 ^ eo2
            res.case(('dg3c', tuple(v)), nontrivial=any(v))
            d = dg3c.down(dg3c.up(v))
            if not approx(np.asarray(d).tolist(), [core.frac(t) for t in v], max(1, max(abs(t) for t in v)) ** 4):
                res.violate('dg3c: down(up(x)) != x', dict(module='dg3c', x=v), np.asarray(d).tolist(), v, dict(module='dg3c', op='down-up'))
    # predefined modules export exactly the documented signature and blades
    from harness import real
    for name, (attr, sig) in real.PREDEFINED.items():
        modname = name.split(':')[0]
        mod = importlib.import_module('clifford.' + modname)
        L = real.predefined(name)
        res.case(('exports', name))
        if [int(s) for s in L.sig] != sig:
            res.violate('predefined module signature differs from the documented one', dict(module=name), [int(s) for s in L.sig], sig, dict(module=name, op='sig'))
        if ':' in name:
            continue
        bl = getattr(mod, 'blades', None)
        if bl is None or list(bl.keys()) != list(L.names):
            res.violate('predefined module does not export the blades of its layout', dict(module=name), None, None, dict(module=name, op='blades'))
            continue
        for k, b in bl.items():
            if k and (not hasattr(mod, k) or getattr(mod, k).value.tolist() != b.value.tolist() or np.count_nonzero(b.value) != 1):
                res.violate('predefined module name does not hold the blade of that name', dict(module=name, blade=k), None, None, dict(module=name, op='blade-export'))
                break


def run_job(job, tier, seed):
    res = core.Result(job)
    rng = gen.rng_for(seed, 'C08', job)
    ob = common.OpBatch()
    if job == 'conformal':
        nmax = 4 if tier == 'quick' else 6
        for n in range(0, nmax + 1):
            for p in range(n + 1):
                with common.guard(res, 'check_conformal', dict(p=p, q=n - p)):
                    check_conformal(res, p, n - p, rng, 6 if n <= 3 else (3 if tier == 'quick' else 6), ob)
        with common.guard(res, 'check_shipped', dict(module='shipped')):
            check_shipped(res, rng, 8 if tier == 'quick' else 30, tier)
    elif job == 'conformal_jit':
        for (p, q) in ((2, 0), (1, 1), (3, 0), (0, 2), (2, 1)):
            with common.guard(res, 'check_conformal', dict(p=p, q=q)):
                check_conformal(res, p, q, rng, 4, ob)
        with common.guard(res, 'check_shipped', dict(module='shipped')):
            check_shipped(res, rng, 3, tier)
    else:
        raise ValueError(job)
    ob.run(res, job)
    return res


def replay(obj):
    res = core.Result('replay')
    rng = gen.rng_for(0, 'replay')
    site = obj.get('site', {})
    ob = common.OpBatch()
    if 'p' in site:
        check_conformal(res, site['p'], site['q'], rng, 10, ob)
    else:
        check_shipped(res, rng, 10, 'quick')
    for v in res.violations[:5]:
        print('still failing:', v['what'], v['site'])
    return 1 if res.violations else 0
