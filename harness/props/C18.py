"""C18 MVArray, Frame and BladeMap behave as element-wise / linear lifts."""
import itertools
import operator as pyop
from fractions import Fraction

from harness import core, gen, common

ID = 'C18'
LEAN_TARGETS = ['Props.C18']
TIE_A = ['misc_mvarray_folds_eq', 'misc_blademap_eq', 'misc_frame_eq']
OBLIGATIONS = [
    'C18.blademap_additive', 'C18.blademap_homogeneous', 'C18.blademap_listed', 'C18.blademap_twice', 'C18.mvarray_fold',
    'C18.innermorphic_symmetric', 'C18.frame_volume_element', 'C18.reciprocal_frame', 'C18.inner_scalar_is_contraction_scalar',
]
PARTIAL = ['reciprocal frame: proved as a_i _| a^j = delta_ij with the coded left-contraction table (and the scalar component of the coded `|` equals that of `_|`); '
           'that E has an inverse (non-null volume element) is a hypothesis, as the property requires',
           'element-wise lifts of MVArray are numpy object-array broadcasting: modelled as map/zipWith (definitional) and evaluated on the implementation']
RULE = ("array shapes up to 3-D with integer multivector elements, every operand-kind pair (array/array, array/single either side, numeric array/multivector either side); "
        "frames of 2..n integer vectors with non-null volume element in non-degenerate signatures n<=5; blade maps: sta.bm and random signed pairings between two algebras. "
        "Non-trivial = arrays with >= 2 elements and non-scalar multivectors; distinct = distinct (shape, operands, operator) text")
ASSUMPTIONS = ["numpy object-array arithmetic applies the element operator element by element"]

OPS = {'+': pyop.add, '-': pyop.sub, '*': pyop.mul, '^': pyop.xor, '|': pyop.or_}


def jobs(tier, seed):
    return [dict(name='lifts', jit=False, timeout=2400), dict(name='lifts_jit', jit=True, timeout=2400)]


def rand_mvs(rng, L, shape):
    import numpy as np
    import clifford as cf
    vals = rng.integers(-4, 5, size=tuple(shape) + (L.gaDims,))
    return cf.MVArray.from_value_array(L, vals), vals


def arr_eq(A, expected_vals):
    import numpy as np
    got = np.asarray(A.value if hasattr(A, 'value') and not hasattr(A, 'layout') else A.value)
    return got.shape == np.asarray(expected_vals).shape and np.array_equal(got, expected_vals)


def check_mvarray(res, L, rng, tag, reps):
    import numpy as np
    import clifford as cf
    N = L.gaDims
    site = common.site_of(L)
    for _ in range(reps):
        nd = int(rng.integers(1, 4))
        shape = [int(x) for x in rng.integers(1, 4, size=nd)]
        A, va = rand_mvs(rng, L, shape)
        B, vb = rand_mvs(rng, L, shape)
        M = common.mv(L, gen.int_mv(rng, N))
        inp = dict(site, shape=shape)
        # value / from_value_array round trip
        res.case(('value', tag, tuple(shape), va.tobytes()), nontrivial=True, sample=dict(sig=site['sig'], shape=shape))
        if not (A.shape == tuple(shape) and A.value.shape == tuple(shape) + (N,) and np.array_equal(A.value, va)):
            res.violate('value / from_value_array do not round-trip with shape (..., 2^n)', inp, list(A.value.shape), shape + [N], dict(site, op='value-roundtrip'))
        for sym, f in OPS.items():
            res.case(('arr-arr', tag, sym, tuple(shape), va.tobytes(), vb.tobytes()), nontrivial=int(np.prod(shape)) >= 2)
            res.count('op' + sym)
            # array (op) array
            C = f(A, B)
            exp = np.empty(tuple(shape) + (N,), dtype=np.int64)
            for idx in np.ndindex(*shape):
                exp[idx] = f(A[idx], B[idx]).value
            if not (isinstance(C, cf.MVArray) and np.array_equal(np.asarray(C.value), exp)):
                res.violate(f'MVArray {sym} MVArray is not the element-wise operation', dict(inp, op=sym), None, None, dict(site, op='arr-arr' + sym))
            # array (op) single, single (op) array
            for side in ('right', 'left'):
                C = f(A, M) if side == 'right' else f(M, A)
                for idx in np.ndindex(*shape):
                    e = f(A[idx], M) if side == 'right' else f(M, A[idx])
                    exp[idx] = e.value
                if not (isinstance(C, cf.MVArray) and C.shape == tuple(shape) and np.array_equal(np.asarray(C.value), exp)):
                    res.violate(f'MVArray {sym} single multivector ({side}) is not element-wise', dict(inp, op=sym, side=side, M=M.value.tolist()), None, None,
                                dict(site, op='arr-single' + sym, side=side))
            # numeric array (op) multivector
            num = rng.integers(-3, 4, size=tuple(shape))
            for side in ('right', 'left'):
                try:
                    C = f(num, M) if side == 'left' else f(M, num)
                except Exception as e:
                    res.violate(f'numeric array {sym} multivector raises', dict(inp, op=sym, side=side), repr(e), None, dict(site, op='num-single' + sym, side=side))
                    continue
                ok = isinstance(C, cf.MVArray) and C.shape == tuple(shape)
                if ok:
                    for idx in np.ndindex(*shape):
                        e = f(int(num[idx]), M) if side == 'left' else f(M, int(num[idx]))
                        if not np.array_equal(np.asarray(C[idx].value), np.asarray(e.value)):
                            ok = False
                            break
                if not ok:
                    res.violate(f'numeric array {sym} multivector ({side}) is not element-wise', dict(inp, op=sym, side=side, M=M.value.tolist(), num=num.tolist()),
                                None, None, dict(site, op='num-single' + sym, side=side))
        # folds on 1-D arrays
        k = int(rng.integers(1, 5))
        F, vf = rand_mvs(rng, L, [k])
        res.case(('folds', tag, k, vf.tobytes()), nontrivial=k >= 2)
        acc_s, acc_g, acc_o = F[0], F[0], F[0]
        for e in list(F)[1:]:
            acc_s, acc_g, acc_o = acc_s + e, acc_g * e, acc_o ^ e
        if not (common.eq(F.sum(), acc_s) and common.eq(F.gp(), acc_g) and common.eq(F.op(), acc_o)):
            res.violate('MVArray.sum/gp/op are not left folds', dict(site, k=k, values=vf.tolist()), None, None, dict(site, op='folds'))
        if not np.array_equal(vf, F.value):
            res.violate('MVArray.sum/gp/op modified the array', dict(site, k=k), None, None, dict(site, op='folds-pure'))
        # folds on arrays whose elements have different coefficient dtypes (narrowest first): int64, float64, complex128
        if L.dims >= 2:
            b1, b2 = L.blades_list[1], L.blades_list[min(2, len(L.blades_list) - 1)]
            for elems, nm in (([b1, 0.5 * b2, 0.25 * b1 + 1.5], 'int-then-float'), ([0.5 * b1, (1 + 2j) * b2, b1], 'real-then-complex'),
                              ([b1, (0.5 + 0.25j) * b2], 'int-then-complex')):
                Fm = cf.MVArray(elems)
                res.case(('folds-mixed', tag, nm), nontrivial=True)
                res.count('folds_mixed')
                acc_s, acc_g, acc_o = elems[0], elems[0], elems[0]
                for e in elems[1:]:
                    acc_s, acc_g, acc_o = acc_s + e, acc_g * e, acc_o ^ e
                if not (common.eq(Fm.sum(), acc_s) and common.eq(Fm.gp(), acc_g) and common.eq(Fm.op(), acc_o)):
                    res.violate('MVArray.sum/gp/op are not left folds on a mixed-dtype array', dict(site, kind=nm), [Fm.sum().value.tolist()], [acc_s.value.tolist()],
                                dict(site, op='folds-mixed', kind=nm))
        # A(g), dual, normal map over elements
        g = int(rng.integers(0, L.dims + 1))
        res.case(('maps', tag, tuple(shape), g, va.tobytes()))
        P = A(g)
        Dm = A.dual()
        ok = True
        for idx in np.ndindex(*shape):
            if not np.array_equal(np.asarray(P[idx].value), np.asarray(A[idx](g).value)) or not np.array_equal(np.asarray(Dm[idx].value), np.asarray(A[idx].dual().value)):
                ok = False
        if not ok or P.shape != tuple(shape):
            res.violate('A(g) / dual() do not map over the elements', dict(inp, g=g), None, None, dict(site, op='maps'))
        # normal(): use elements with non-zero norm
        Vn = cf.MVArray([L.basis_vectors_lst[i % max(1, L.dims)] * 3 + 4 * L.scalar for i in range(3)]) if (L.dims >= 1 and int(L.sig[0]) == 1) else None
        if Vn is not None:
            Nn = Vn.normal()
            for i in range(3):
                if not np.allclose(Nn[i].value, Vn[i].normal().value, rtol=1e-15, atol=0):
                    res.violate('normal() does not map over the elements', dict(site), None, None, dict(site, op='maps-normal'))
    # 0-d array from a single multivector
    M = common.mv(L, gen.int_mv(rng, N))
    Z = cf.array(M)
    res.case(('zero-d', tag, M.value.tolist()))
    if Z.shape != () or not np.array_equal(np.asarray(Z.value), M.value):
        res.violate('cf.array(single multivector) is not a 0-d array of that multivector', dict(site), list(Z.shape), [], dict(site, op='zero-d'))


def check_frames(res, L, rng, tag, reps):
    import numpy as np
    import clifford as cf
    n = L.dims
    sig = [int(s) for s in L.sig]
    if n < 2 or 0 in sig:
        return
    site = common.site_of(L)
    E = L.basis_vectors_lst
    for _ in range(reps):
        k = int(rng.integers(2, n + 1))
        coeffs = rng.integers(-3, 4, size=(k, n))
        vecs = []
        for row in coeffs:
            v = 0 * E[0]
            for c, e in zip(row, E):
                v = v + int(c) * e
            vecs.append(v)
        if any(not v.value.any() for v in vecs):
            continue
        Fr = cf.Frame(vecs)
        En = Fr.En
        exp_En = vecs[0]
        for v in vecs[1:]:
            exp_En = exp_En ^ v
        res.case(('frame', tag, coeffs.tolist()), nontrivial=True, sample=dict(sig=sig, frame=coeffs.tolist()))
        if not common.eq(En, exp_En):
            res.violate('Frame.En is not the outer product of the vectors', dict(site, frame=coeffs.tolist()), En.value.tolist(), exp_En.value.tolist(), dict(site, op='En'))
        m2 = int(En.mag2())
        if m2 == 0:
            res.count('frame_null_volume')
            continue          # dependent vectors or a null volume element: no reciprocal frame exists
        res.count('frame_reciprocal')
        inp = dict(site, frame=coeffs.tolist())
        try:
            R = Fr.inv
        except Exception as e:
            res.violate('Frame.inv raises for an independent frame with invertible volume element', inp, repr(e), None, dict(site, op='frame-inv', error=type(e).__name__))
            continue
        scale = float(np.abs(coeffs).max()) ** (2 * k) + 1
        for i in range(k):
            for j in range(k):
                d = float((Fr[i] | R[j]).value[0])
                if abs(d - (1.0 if i == j else 0.0)) > 1e-9 * scale:
                    res.violate('reciprocal frame: a_i | a^j != delta_ij', dict(inp, i=i, j=j), d, 1.0 if i == j else 0.0, dict(site, op='frame-inv'))
        # frames derived from this one through numpy (slices, reversal, arithmetic, item assignment) after En / inv were used: each is a frame of
        # ITS vectors (nothing may be remembered from the frame it came from)
        res.case(('frame-derived', tag, coeffs.tolist()), nontrivial=True)
        res.count('frame_derived')

        def wedge_(vs):
            o_ = vs[0]
            for v_ in vs[1:]:
                o_ = o_ ^ v_
            return o_
        derived = [('slice[:k-1]', lambda: Fr[:k - 1]), ('reversed', lambda: Fr[::-1]), ('2*frame', lambda: 2 * Fr)]
        for dname, mk in derived:
            try:
                G = mk()
                if not isinstance(G, cf.Frame) or len(G) < 2:
                    continue          # (frames of one vector: Frame.inv is not defined by the library, see DESIGN section 7)
                gv = [G[i_] for i_ in range(len(G))]
                if not common.eq(G.En, wedge_(gv)):
                    res.violate('En of a frame derived from another frame is not the outer product of its own vectors', dict(inp, derived=dname),
                                G.En.value.tolist(), wedge_(gv).value.tolist(), dict(site, op='En-derived', derived=dname))
                    continue
                if len(G) >= 1 and float(wedge_(gv).mag2()) != 0:
                    Rg = G.inv
                    for i_ in range(len(G)):
                        d_ = float((G[i_] | Rg[i_]).value[0])
                        if abs(d_ - 1.0) > 1e-9 * (2.0 * scale) ** 2:
                            res.violate('reciprocal frame of a derived frame: a_i | a^i != 1', dict(inp, derived=dname, i=i_), d_, 1.0, dict(site, op='frame-inv-derived', derived=dname))
                            break
            except Exception as e_:
                res.violate('En / inv of a frame derived from another frame raises', dict(inp, derived=dname), repr(e_)[:200], None,
                            dict(site, op='frame-derived-raise', derived=dname, error=type(e_).__name__))
        # item assignment on a frame whose En was read: the volume element follows the new vector
        try:
            H = cf.Frame([1 * v_ for v_ in vecs])
            _ = H.En
            H[0] = vecs[0] + vecs[-1] + E[0]
            hv = [H[i_] for i_ in range(len(H))]
            if not common.eq(H.En, wedge_(hv)):
                res.violate('En of a frame after item assignment is not the outer product of its current vectors', inp, H.En.value.tolist(), wedge_(hv).value.tolist(),
                            dict(site, op='En-after-setitem'))
        except Exception as e_:
            res.violate('En after item assignment on a frame raises', inp, repr(e_)[:200], None, dict(site, op='En-after-setitem-raise', error=type(e_).__name__))
        # innermorphism: reflect the frame in a basis vector (orthogonal map) -> innermorphic both ways; scale one vector -> not, both ways
        e = E[int(rng.integers(n))]
        ee = int((e * e).value[0])
        refl = cf.Frame([-(e * v * e) * ee for v in vecs])
        res.case(('innermorphic', tag, coeffs.tolist()))
        a_b, b_a = Fr.is_innermorphic_to(refl), refl.is_innermorphic_to(Fr)
        if not (a_b and b_a):
            res.violate('a reflected frame is not reported innermorphic', inp, [bool(a_b), bool(b_a)], [True, True], dict(site, op='innermorphic'))
        # a frame with different inner products (scaled up and scaled down) must be rejected in both directions
        gram = [[int((vecs[i] | vecs[j]).value[0]) for j in range(k)] for i in range(k)]
        offdiag_nonzero = any(gram[i][j] != 0 for i in range(k) for j in range(k) if i != j)
        if offdiag_nonzero:
            for fac in (3, Fraction(1, 4)):
                scaled = cf.Frame([float(fac) * vecs[0]] + [1.0 * v for v in vecs[1:]])
                # only pairs (m, n) with m != n enter the test: need a changed off-diagonal product
                if all(gram[0][j] == 0 for j in range(1, k)):
                    continue
                a_b, b_a = Fr.is_innermorphic_to(scaled), scaled.is_innermorphic_to(Fr)
                if a_b or b_a or (a_b != b_a):
                    res.violate('is_innermorphic_to accepts frames whose inner products differ (or is not symmetric)', dict(inp, factor=str(fac)),
                                [bool(a_b), bool(b_a)], [False, False], dict(site, op='innermorphic'))
            # "exactly when all pairwise inner products agree within eps": a tiny exact perturbation (factor 1 + 2^-20 on the first vector changes
            # the products g_0j by exactly |g_0j| 2^-20), tested with the default eps, with an eps just above and one just below the change
            if any(gram[0][j] != 0 for j in range(1, k)):
                tiny = cf.Frame([(1.0 + 2.0 ** -20) * vecs[0]] + [1.0 * v for v in vecs[1:]])
                dmax = max(abs(gram[0][j]) for j in range(1, k)) * 2.0 ** -20
                res.case(('innermorphic-eps', tag, coeffs.tolist()))
                res.count('innermorphic_eps')
                for eps_, want in ((None, False), (2 * dmax, True), (dmax / 2, False)):
                    kw = {} if eps_ is None else dict(eps=eps_)
                    a_b, b_a = Fr.is_innermorphic_to(tiny, **kw), tiny.is_innermorphic_to(Fr, **kw)
                    if bool(a_b) != want or bool(b_a) != want:
                        res.violate('is_innermorphic_to is not "all pairwise inner products agree within eps" (or is not symmetric)',
                                    dict(inp, perturbation='first vector times 1 + 2^-20', eps=eps_, largest_change=dmax),
                                    [bool(a_b), bool(b_a)], [want, want], dict(site, op='innermorphic-eps'))


def check_blademap(res, rng, tag, ob):
    import numpy as np
    import clifford as cf
    from harness import real
    # sta.bm and a random signed pairing
    import clifford.sta as sta
    maps = [('sta.bm', sta.bm, sta.D, sta.P)]
    n1, n2 = int(rng.integers(1, 4)), int(rng.integers(1, 4))
    L1 = real.make_layout(gen.random_signature(rng, n1))
    L2 = real.make_layout(gen.random_signature(rng, n2) + [1])      # different signature length => different layouts
    k = int(rng.integers(1, min(L1.gaDims, L2.gaDims)))
    i1 = [int(x) + 1 for x in rng.permutation(L1.gaDims - 1)[:k]]
    i2 = [int(x) + 1 for x in rng.permutation(L2.gaDims - 1)[:k]]
    pairs = [(int(rng.choice([1, -1])) * L1._basis_blade(a), int(rng.choice([1, -1])) * L2._basis_blade(b)) for a, b in zip(i1, i2)]
    maps.append(('random', cf.BladeMap(list(pairs)), L1, L2))
    for name, bm, La, Lb in maps:
        site = dict(map=name, src=common.site_of(La), dst=common.site_of(Lb))
        b1, b2 = bm.b1, bm.b2
        res.case(('blademap', tag, name, len(b1)), nontrivial=True, sample=dict(map=name, pairs=len(b1)))
        for x, y in zip(b1, b2):
            if not (np.array_equal(np.asarray(bm(x).value, dtype=float), np.asarray(y.value, dtype=float))
                    and np.array_equal(np.asarray(bm(y).value, dtype=float), np.asarray(x.value, dtype=float))):
                res.violate('BladeMap does not map a listed blade to its partner (either direction)', dict(site, blade=x.value.tolist()), bm(x).value.tolist(), y.value.tolist(),
                            dict(site, op='blademap-listed'))
        for _ in range(4):
            A = common.mv(La, gen.int_mv(rng, La.gaDims))
            B = common.mv(La, gen.int_mv(rng, La.gaDims))
            res.case(('blademap-linear', tag, name, A.value.tolist(), B.value.tolist()))
            if not (np.array_equal(bm(A + B).value, (bm(A) + bm(B)).value) and np.array_equal(bm(3 * A).value, (3 * bm(A)).value)):
                res.violate('BladeMap is not linear', dict(site, A=A.value.tolist(), B=B.value.tolist()), None, None, dict(site, op='blademap-linear'))
            # in the span of the listed blades: twice = identity
            S = 0 * b1[0]
            for x in b1:
                S = S + int(rng.integers(-4, 5)) * x
            if not np.array_equal(np.asarray(bm(bm(S)).value, dtype=float), np.asarray(S.value, dtype=float)):
                res.violate('BladeMap applied twice is not the identity on the span of the listed blades', dict(site, S=S.value.tolist()), bm(bm(S)).value.tolist(),
                            S.value.tolist(), dict(site, op='blademap-twice'))
            # model
            fr = ";".join(core.mvstr(common.exact_list(x.value)) for x in b1)
            to = ";".join(core.mvstr(common.exact_list(y.value)) for y in b2)
            ob.raw(f"BMAP {Lb.gaDims} {fr} {to} {core.mvstr(common.exact_list(A.value))}", core.mvstr(common.exact_list(bm(A).value)),
                   'BladeMap result differs from the model', key=('bmap-model', tag, name, A.value.tolist()), site=dict(site, op='blademap-model'))
        other = real.make_layout([1, 1, 1, 1, 1, -1, 0])
        try:
            bm(common.mv(other, [1] * other.gaDims))
            res.violate('BladeMap accepts a multivector of neither algebra', site, None, 'ValueError', dict(site, op='blademap-error'))
        except ValueError:
            pass
    # sta.split
    X = common.mv(sta.D, gen.int_mv(rng, sta.D.gaDims))
    res.case(('sta.split', tag, X.value.tolist()))
    exp = sta.bm(X.odd * sta.d0 + X.even)
    if not np.array_equal(sta.split(X).value, exp.value):
        res.violate('sta.split is not bm(X.odd*d0 + X.even)', dict(X=X.value.tolist()), None, None, dict(map='sta.split', op='split'))


def run_job(job, tier, seed):
    from harness import real
    res = core.Result(job)
    rng = gen.rng_for(seed, 'C18', job)
    ob = common.OpBatch()
    if job == 'lifts':
        sigs = [gen.random_signature(rng, n) for n in (1, 2, 3, 3, 4)] + [[1, 1, 1], [1, -1, -1, -1], [1, 1, 1, 1, -1]]
        for i, s in enumerate(sigs):
            L = real.make_layout(s)
            common.gcall(res, check_mvarray, L, rng, f"L{i}", 2 if tier == 'quick' else 6)
        for i, s in enumerate([[1, 1], [1, 1, 1], [1, -1, 1], [1, 1, 1, -1], [-1, -1, -1], [1, 1, 1, 1, -1], [1, -1, -1, -1]]):
            L = real.make_layout(s)
            common.gcall(res, check_frames, L, rng, f"F{i}", 4 if tier == 'quick' else 15)
        for i in range(3 if tier == 'quick' else 10):
            with common.guard(res, 'BladeMap', {}):
                check_blademap(res, rng, f"B{i}", ob)
    elif job == 'lifts_jit':
        L = real.make_layout([1, 1, -1])
        common.gcall(res, check_mvarray, L, rng, "J0", 2)
        common.gcall(res, check_frames, L, rng, "J0", 3)
        with common.guard(res, 'BladeMap', {}):
            check_blademap(res, rng, "J0", ob)
    else:
        raise ValueError(job)
    ob.run(res, job)
    return res


def replay(obj):
    res = run_job('lifts', 'quick', 0)
    for v in res.violations[:5]:
        print('still failing:', v['what'], v['site'])
    return 1 if res.violations else 0
