"""C02 Outer, inner and left-contraction products are the right grade parts of A*B."""
import itertools

from harness import core, gen, common
from harness.props import C01

ID = 'C02'
LEAN_TARGETS = ['Props.C02']
# Tie A: equivalence theorems generated from the current source by translate/py2lean.py (checked on every run)
TIE_A = ['imt_check_eq_model', 'omt_check_eq_model', 'lcmt_check_eq_model'] + ['construct_graded_mt_eq'] + ['meth_operators_eq']
OBLIGATIONS = [
    'C02.outer_is_grade_sum', 'C02.inner_is_grade_absdiff', 'C02.inner_scalar_left', 'C02.inner_scalar_right',
    'C02.lc_is_grade_diff', 'C02.lc_zero_of_gt', 'C02.add_left', 'C02.add_right', 'C02.smul_left', 'C02.smul_right',
    'C02.outer_signature_independent', 'C02.outer_assoc', 'C02.outer_alternating', 'C02.grade_xor', 'C02.gradedMt_mem',
    'C02.graded_table_contraction_is_mmul',
    'C02.outer_is_zero_signature_product', 'C02.zero_signature_form_is_zero', 'C02.outer_is_exterior_product',
    'C02.left_contraction_antiderivation', 'C02.left_contraction_is_mathlib_contractLeft',
]
PENDING = []
RULE = ("layouts as in C01 (exhaustive small signatures, random larger ones, custom ids/orders); per layout every grade pair (r,s) "
        "with random homogeneous integer operands, plus mixed-grade operands; non-trivial = both operands non-zero; "
        "distinct = distinct (layout, operands, operator) text")
ASSUMPTIONS = C01.ASSUMPTIONS


def jobs(tier, seed):
    return [dict(name='tables', jit=False, timeout=2400), dict(name='ops_jit', jit=True, timeout=2400)]


def check_grade_parts(res, L, rng, tag, reps=1, full_pairs=True):
    """the property's own predicates on the real code, exact integers"""
    import numpy as np
    import clifford.operator as cop
    n = L.dims
    site = common.site_of(L)
    G = common.gpart
    pairs = list(itertools.product(range(n + 1), repeat=2))
    if not full_pairs and len(pairs) > 12:
        idx = rng.choice(len(pairs), size=12, replace=False)
        pairs = [pairs[i] for i in idx]
    zero = common.mv(L, np.zeros(L.gaDims, dtype=np.int64))
    for (r, s) in pairs:
        for _ in range(reps):
            A = common.hom_mv(rng, L, r)
            B = common.hom_mv(rng, L, s)
            P = A * B
            key = (tag, r, s, A.value.tolist(), B.value.tolist())
            inp = dict(site, r=r, s=s, A=A.value.tolist(), B=B.value.tolist())
            res.case(('outer',) + key)
            got = A ^ B
            exp = G(L, P, r + s) if r + s <= n else zero
            if not common.eq(got, exp):
                res.violate('A^B is not the grade r+s part of A*B', inp, got.value.tolist(), exp.value.tolist(), dict(site, op='^', r=r, s=s))
            res.case(('inner',) + key)
            got = A | B
            exp = G(L, P, abs(r - s)) if (r != 0 and s != 0) else zero
            if not common.eq(got, exp):
                res.violate('A|B is not the grade |r-s| part of A*B (0 for scalar operands)', inp, got.value.tolist(), exp.value.tolist(),
                            dict(site, op='|', r=r, s=s))
            res.case(('lc',) + key)
            exp = G(L, P, s - r) if s >= r else zero
            for nm, got in (('<<', A << B), ('lc', A.lc(B))):
                if not common.eq(got, exp):
                    res.violate(f'A{nm}B is not the grade s-r part of A*B (0 when r>s)', inp, got.value.tolist(), exp.value.tolist(),
                                dict(site, op=nm, r=r, s=s))
            if not common.eq(cop.op(A, B), A ^ B) or not common.eq(cop.ip(A, B), A | B) or not common.eq(cop.gp(A, B), P):
                res.violate('clifford.operator.op/ip/gp differ from ^, |, *', inp, None, None, dict(site, op='operator'))
    # bilinear extension to mixed grades, scalars on either side, associativity, alternation
    N = L.gaDims
    for _ in range(3 * reps):
        A, B, C = (common.mv(L, gen.int_mv(rng, N)) for _ in range(3))
        inp = dict(site, A=A.value.tolist(), B=B.value.tolist(), C=C.value.tolist())
        key = (tag, A.value.tolist(), B.value.tolist(), C.value.tolist())
        nt = gen.nontrivial_mv(A.value.tolist()) and gen.nontrivial_mv(B.value.tolist())
        for nm, f, part in (('^', lambda x, y: x ^ y, lambda r, s: r + s),
                            ('|', lambda x, y: x | y, lambda r, s: abs(r - s) if r and s else None),
                            ('<<', lambda x, y: x << y, lambda r, s: s - r if s >= r else None)):
            res.case(('mixed', nm) + key, nontrivial=nt)
            exp = zero
            for r in range(n + 1):
                for s in range(n + 1):
                    g = part(r, s)
                    if g is None or g > n:
                        continue
                    exp = exp + G(L, G(L, A, r) * G(L, B, s), g)
            got = f(A, B)
            if not common.eq(got, exp):
                res.violate(f'{nm} on mixed-grade operands is not the bilinear extension of the grade rule', inp,
                            got.value.tolist(), exp.value.tolist(), dict(site, op=nm, mixed=True))
            if not (common.eq(f(A + C, B), f(A, B) + f(C, B)) and common.eq(f(A, B + C), f(A, B) + f(A, C))
                    and common.eq(f(3 * A, B), 3 * f(A, B)) and common.eq(f(A, B * 5), 5 * f(A, B))):
                res.violate(f'{nm} is not bilinear', inp, None, None, dict(site, op=nm, bilinear=True))
        # homogeneity at extreme scales (powers of two: exact in binary64): the products have no tolerance in them
        Af, Bf = (common.mv(L, gen.int_mv(rng, N, 'dense', -4, 4)).astype(np.float64) for _ in range(2))     # small: every sum below stays exact
        for e2 in (45, 60):
            As, Bs = (2.0 ** -e2) * Af, (2.0 ** e2) * Bf
            Ash = 7.0 + (2.0 ** -e2) * (Af - Af(0))          # an O(1) scalar part plus a tiny non-scalar part
            for nm, f in (('^', lambda x, y: x ^ y), ('|', lambda x, y: x | y), ('<<', lambda x, y: x << y), ('lc', lambda x, y: x.lc(y))):
                res.case(('scaled', nm, e2) + key, nontrivial=nt)
                exp = f(Af, Bf)
                for what, got in (('(cA, B/c)', f(As, Bs)), ('(B/c, cA)', None)):
                    if got is None:
                        got, exp2 = f(Bs, As), f(Bf, Af)
                    else:
                        exp2 = exp
                    if not np.array_equal(got.value, exp2.value):
                        res.violate(f'{nm} is not homogeneous: f(cA, B/c) != f(A, B) for c = 2^-{e2}', dict(site, A=Af.value.tolist(), B=Bf.value.tolist(), c=f'2^-{e2}', operands=what), got.value.tolist(),
                                    exp2.value.tolist(), dict(site, op=nm, scaled=e2))
                if e2 != 45:
                    continue
                exp3 = f(7.0 + 0.0 * Af, Bs) + f(Af - Af(0), Bf)
                got3 = f(Ash, Bs)
                if not np.array_equal(got3.value, exp3.value):
                    res.violate(f'{nm} is not additive on (scalar + tiny non-scalar part)', dict(site, A=Af.value.tolist(), B=Bf.value.tolist(), c=f'2^-{e2}'), got3.value.tolist(), exp3.value.tolist(),
                                dict(site, op=nm, scaled=e2, additive=True))
        res.case(('assoc^',) + key, nontrivial=nt)
        if not common.eq((A ^ B) ^ C, A ^ (B ^ C)):
            res.violate('outer product is not associative', inp, ((A ^ B) ^ C).value.tolist(), (A ^ (B ^ C)).value.tolist(), dict(site, op='^assoc'))
        # scalar operands
        k = int(rng.integers(-5, 6))
        res.case(('scalar',) + key[:2] + (k,), nontrivial=nt)
        if not (common.eq(A ^ k, k * A) and common.eq(k ^ A, k * A) and common.eq(A | k, zero) and common.eq(k | A, zero)):
            res.violate('scalar operand conventions of ^ and | are wrong', dict(inp, k=k), None, None, dict(site, op='scalar'))
        # left contraction onto a scalar: only the scalar part of A survives (grade s-r with s = 0)
        for kk in (k, float(k) + 0.5, np.int64(k)):
            exp_lc = kk * G(L, A, 0)
            if not (np.array_equal((A << kk).value, exp_lc.value) and np.array_equal(A.lc(kk).value, exp_lc.value)):
                res.violate('A << scalar is not the grade (0 - r) part: only the scalar part of A may survive', dict(inp, k=repr(kk)), (A << kk).value.tolist(),
                            exp_lc.value.tolist(), dict(site, op='lc-scalar'))
        import clifford.operator as cop2
        if not (common.eq(cop2.op(A, k), k * A) and common.eq(cop2.gp(k, A), k * A) and common.eq(cop2.ip(A, k), zero)):
            res.violate('clifford.operator functions with scalar operands are wrong', dict(inp, k=k), None, None, dict(site, op='operator-scalar'))
        if n >= 1:
            v = common.hom_mv(rng, L, 1, -9, 9)
            w = common.hom_mv(rng, L, 1, -9, 9)
            res.case(('alt', tag, v.value.tolist(), w.value.tolist()))
            if not (common.eq(v ^ v, zero) and common.eq(v ^ w, -(w ^ v))):
                res.violate('outer product is not alternating on vectors', dict(site, v=v.value.tolist(), w=w.value.tolist()),
                            (v ^ v).value.tolist(), 0, dict(site, op='^alt'))


def check_signature_independence(res, rng, n, reps, tier):
    """A^B has the same coefficients in every signature (same n, default order)"""
    import numpy as np
    from harness import real
    sigs = gen.all_signatures(n) if n <= 3 else [gen.random_signature(rng, n) for _ in range(6)]
    Ls = [real.make_layout(s) for s in sigs]
    N = 2 ** n
    for _ in range(reps):
        a, b = gen.int_mv(rng, N), gen.int_mv(rng, N)
        ref = None
        for s, L in zip(sigs, Ls):
            got = (common.mv(L, a) ^ common.mv(L, b)).value.tolist()
            res.case(('sigindep', n, tuple(s), tuple(a), tuple(b)), nontrivial=gen.nontrivial_mv(a) and gen.nontrivial_mv(b))
            if ref is None:
                ref = got
            elif got != ref:
                res.violate('outer product depends on the signature', dict(sig=s, other_sig=sigs[0], A=a, B=b), got, ref,
                            dict(sig=s, op='^sig'))


def op_correspondence(res, layouts, rng, reps, label, dtypes=('int',)):
    import numpy as np
    ob = common.OpBatch()
    for tag, L in layouts:
        N = L.gaDims
        for r in range(reps):
            dt = dtypes[r % len(dtypes)]
            if dt == 'int':
                a, b = gen.int_mv(rng, N), gen.int_mv(rng, N)
                A, B = common.mv(L, a), common.mv(L, b)
            else:
                a, b = gen.dyadic_mv(rng, N), gen.dyadic_mv(rng, N)
                A, B = common.mv(L, [float(x) for x in a], np.float64), common.mv(L, [float(x) for x in b], np.float64)
            nt = gen.nontrivial_mv(a) and gen.nontrivial_mv(b)
            sa, sb = core.mvstr(a), core.mvstr(b)
            ob.op(tag, L, 'op', [sa, sb], (A ^ B).value, nontrivial=nt)
            ob.op(tag, L, 'ip', [sa, sb], (A | B).value, nontrivial=nt)
            ob.op(tag, L, 'lc', [sa, sb], (A << B).value, nontrivial=nt)
    ob.run(res, label)


def run_job(job, tier, seed):
    from harness import real
    res = core.Result(job)
    rng = gen.rng_for(seed, 'C02', job)
    if job == 'tables':
        cases = common.layout_cases(tier, seed, 'C02')
        layouts = common.build_layouts(res, cases)
        common.gcall(res, C01._compare_tables, layouts, which=('omt', 'imt', 'lcmt'))
        for tag, L in layouts:
            if L.dims == 0:
                continue
            big = L.gaDims > 32
            common.gcall(res, check_grade_parts, L, rng, tag, reps=1, full_pairs=not (big and tier == 'quick'))
        for n in range(1, 5 if tier == 'quick' else 7):
            common.gcall(res, check_signature_independence, rng, n, 4 if tier == 'quick' else 12, tier)
        common.gcall(res, op_correspondence, [(t, L) for t, L in layouts if L.gaDims <= 64], rng, 2 if tier == 'quick' else 6, 'nojit')
        pre = []
        for name in ('g3c', 'pga', 'sta:D', 'g3_1', 'pga2d'):
            L = real.predefined(name)
            pre.append((f"P_{name.replace(':', '_')}", L))
            common.gcall(res, check_grade_parts, L, rng, name, reps=1, full_pairs=False)
        common.gcall(res, C01._compare_tables, pre, which=('omt', 'imt', 'lcmt'))
    elif job == 'ops_jit':
        cases = [dict(sig=gen.random_signature(rng, n)) for n in (1, 2, 3, 4)]
        n = int(rng.integers(2, 4))
        ids, first = gen.random_ids(rng, n)
        cases.append(dict(sig=gen.random_signature(rng, n), ids=ids, first=first, order=gen.random_order(rng, n, 'perm')))
        if tier == 'thorough':
            cases += [dict(sig=gen.random_signature(rng, n)) for n in (5, 6)]
        layouts = common.build_layouts(res, cases, prefix='J')
        common.gcall(res, C01._compare_tables, layouts, which=('omt', 'imt', 'lcmt'))
        for tag, L in layouts:
            common.gcall(res, check_grade_parts, L, rng, tag, reps=1, full_pairs=L.gaDims <= 16)
        common.gcall(res, op_correspondence, layouts, rng, 6 if tier == 'quick' else 20, 'jit', dtypes=('int', 'float'))
    else:
        raise ValueError(job)
    return res


def replay(obj):
    from harness import real
    site = obj.get('site', {})
    order = site.get('order')
    L = real.make_layout(site['sig'], None, None, order if isinstance(order, list) else None)
    res = core.Result('replay')
    rng = gen.rng_for(0, 'replay')
    check_grade_parts(res, L, rng, 'replay', reps=3)
    check_signature_independence(res, rng, L.dims, 3, 'quick')
    for v in res.violations[:5]:
        print('still failing:', v['what'], v['site'])
    return 1 if res.violations else 0
