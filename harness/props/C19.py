"""C19 Text forms round-trip: str -> parse, and ugly repr -> eval."""
from fractions import Fraction

from harness import core, gen, common

ID = 'C19'
LEAN_TARGETS = ['Props.C19']
TIE_A = ['parser_step_eq', 'parser_lexicon_eq', 'parser_line_offset_eq', 'printer_str_eq']
OBLIGATIONS = [
    'C19.parse_print_roundtrip', 'C19.term_order_irrelevant', 'C19.whitespace_irrelevant', 'C19.printed_within_half_unit',
    'C19.two_coefficients_in_a_row', 'C19.dangling_sign', 'C19.dangling_wedge', 'C19.unknown_blade', 'C19.error_position',
    'C19.str_loop_is_printToks', 'C19.parse_str_loop_roundtrip', 'C19.error_line_and_column',
]
PENDING = ['repr/eval record model (layout reference | full layout repr, value list, dtype suffix) is checked on the implementation only',
           'characters <-> tokens (re.Scanner, float formatting) are compared with the real tokenizer, not proved']
RULE = ("layouts with default names, custom names (prefix-of-each-other, empty scalar name, regex metacharacters), custom ids/orders, predefined modules; "
        "coefficients: integers and floats with |c| in {0} u [1e-8, 1e8]; print precisions 1..12; malformed strings of each named kind. "
        "Non-trivial = at least one non-scalar non-zero coefficient; distinct = distinct (layout names, coefficient vector, precision, clause)")
ASSUMPTIONS = ["float() parses what numpy's float formatting prints (shortest round-trip repr)",
               "eval namespace holds the public names of clifford and numpy, as the property states"]


def jobs(tier, seed):
    return [dict(name='text', jit=False, timeout=1800)]


def tok_text(tokens):
    """real token list -> model token text"""
    out = []
    for t, m, data in tokens:
        if t == 'space':
            out.append('sp')
        elif t in '()':
            out.append(t)
        elif t == 'sign':
            out.append(f's{int(data)}')
        elif t == 'coeff':
            if float(data) != int(data):
                return None
            out.append(f'c{int(data)}')
        elif t == 'wedge':
            out.append('w')
        elif t == 'blade':
            out.append(f'b{int(data)}')
        elif t == 'unrecognized':
            out.append('u')
        elif t == 'end':
            out.append('e')
    return ",".join(out)


def make_layouts(rng, tier):
    from harness import real
    import clifford as cf
    out = []
    for n in (1, 2, 3, 4):
        out.append((f'default{n}', real.make_layout(gen.random_signature(rng, n)), True))
    # names that are prefixes of each other, empty scalar name
    out.append(('prefix', real.make_layout([1, 1, 1], names=['', 'e1', 'e2', 'e12', 'e1e', 'e', 'e21', 'e123']), True))
    out.append(('xyz', real.make_layout([1, -1], names=['', 'x', 'y', 'xy']), True))
    out.append(('meta', real.make_layout([1, 1], names=['', 'a.b', 'a+', 'a.b+']), False))     # regex metacharacters: '+' is also an operator, str->parse not claimed
    # names with a non-word character in their interior: custom ones, and the default names of a layout whose first id is negative (`e-1`, `e-10`, …)
    out.append(('colon', real.make_layout([1, -1], names=['', 'v:x', 'v:y', 'v:xy']), True))
    out.append(('dotted', real.make_layout([1, 1], names=['', 'p.1', 'p.2', 'p.12']), True))
    out.append(('firstidx_neg', real.make_layout([1, 1, -1], first=-1), True))
    out.append(('firstidx0', cf.Cl(2, 1, firstIdx=0)[0], True))
    out.append(('firstidx3', cf.Cl(2, 1, firstIdx=3)[0], True))             # any first index other than the default 1 and 0
    fk = int(rng.integers(2, 8))
    out.append((f'firstidx_{fk}', cf.Cl(1, 1, firstIdx=fk)[0], True))
    out.append(('names_f', cf.Cl(3, names='f')[0], True))
    n = 3
    ids, first = gen.random_ids(rng, n, 'strings')
    out.append(('strids', real.make_layout(gen.random_signature(rng, n), ids=ids, order=gen.random_order(rng, n, 'perm')), True))
    ids, first = gen.random_ids(rng, 3, 'noncontig')
    out.append(('noncontig', real.make_layout([1, 1, -1], ids=ids), True))
    for name in ('g2', 'g3', 'g3c', 'pga', 'sta:D'):
        out.append((name, real.predefined(name), True))
    return out


def float_coeffs(rng, N):
    import numpy as np
    v = np.zeros(N)
    for i in range(N):
        r = rng.random()
        if r < 0.25:
            v[i] = 0.0
        elif r < 0.85:
            mag = 10.0 ** rng.uniform(-8, 8)
            v[i] = mag * rng.choice([1, -1]) * rng.uniform(1, 9.99) / 10
            if abs(v[i]) < 1e-8:
                v[i] = 1e-8
        else:
            v[i] = float(rng.integers(-99, 100))
    return v


def check_str_parse(res, tag, L, rng, reps, exact_names):
    import numpy as np
    import clifford as cf
    from clifford import MultiVector
    N = L.gaDims
    site = dict(layout=tag, names=[str(x) for x in L.names][:16], sig=[int(x) for x in L.sig])
    unique = len(set(L.names)) == N and exact_names
    if not unique:
        return
    # integers: exact
    for _ in range(reps):
        v = gen.int_mv(rng, N)
        M = MultiVector(L, np.array(v, dtype=np.int64))
        s = str(M)
        res.case(('int', tag, tuple(v)), nontrivial=gen.nontrivial_mv(v), sample=dict(layout=tag, str=s[:120]))
        variants = {'plain': s, 'nospace': s.replace(' ', ''), 'wide': '  ' + s.replace(' ', '   ') + ' \t'}
        for vn, sv in variants.items():
            try:
                P1 = L.parse_multivector(sv)
                P2 = MultiVector(L, string=sv)
            except Exception as e:
                res.violate('parsing str(M) raises', dict(site, M=v, string=sv), repr(e), v, dict(site, op='parse-int', variant=vn))
                continue
            if P1.value.tolist() != [float(x) for x in v] or P2.value.tolist() != P1.value.tolist():
                res.violate('parse_multivector(str(M)) != M for integer coefficients', dict(site, M=v, string=sv), P1.value.tolist(), v,
                            dict(site, op='parse-int', variant=vn))
        # term order: rebuild the string from shuffled terms
        terms = []
        for idx in range(N):
            c = v[idx]
            if c == 0:
                continue
            terms.append((c, idx))
        if len(terms) >= 2:
            perm = rng.permutation(len(terms))
            parts = []
            for j, pi in enumerate(perm):
                c, idx = terms[pi]
                body = f"{abs(c)}" if L._basis_blade_order.grades[idx] == 0 else f"({abs(c)}^{L.names[idx]})"
                if j == 0:
                    parts.append(('-' if c < 0 else '') + body)
                else:
                    parts.append((' - ' if c < 0 else ' + ') + body)
            sv = ''.join(parts)
            res.case(('order', tag, sv))
            try:
                P = L.parse_multivector(sv)
                if P.value.tolist() != [float(x) for x in v]:
                    res.violate('parse result depends on the order of the terms', dict(site, M=v, string=sv), P.value.tolist(), v, dict(site, op='parse-order'))
            except Exception as e:
                res.violate('parsing reordered terms raises', dict(site, M=v, string=sv), repr(e), v, dict(site, op='parse-order'))
    # floats: within half a unit of the print precision; below eps dropped
    for _ in range(reps):
        p = int(rng.integers(1, 13))
        v = float_coeffs(rng, N)
        if rng.random() < 0.3:
            v[int(rng.integers(N))] = 3e-13 * rng.choice([1, -1])       # below eps: dropped
        M = MultiVector(L, v.copy())
        cf.print_precision(p)
        try:
            s = str(M)
        finally:
            cf.print_precision(5)
        res.case(('float', tag, p, tuple(v.tolist())), nontrivial=gen.nontrivial_mv(v.tolist()), sample=dict(layout=tag, precision=p, str=s[:120]))
        res.count(f'precision_{p}')
        try:
            P = L.parse_multivector(s)
        except Exception as e:
            res.violate('parsing str(M) raises (float coefficients)', dict(site, M=v.tolist(), p=p, string=s), repr(e), None, dict(site, op='parse-float'))
            continue
        half = Fraction(1, 2 * 10 ** p)
        for c, q in zip(v.tolist(), P.value.tolist()):
            fc, fq = Fraction(c), Fraction(q)
            if abs(c) < 1e-12:
                ok = (q == 0)
            else:
                ok = abs(fq - fc) <= half + abs(fc) * Fraction(1, 10 ** 14)
            if not ok:
                res.violate('parse(str(M)) is not within half a unit of the print precision (or a sub-eps coefficient is not dropped)',
                            dict(site, M=v.tolist(), p=p, string=s), q, c, dict(site, op='parse-float', precision=p))
                break


def check_repr_eval(res, tag, L, rng, reps):
    import numpy as np
    import clifford as cf
    from clifford import MultiVector
    import importlib
    ns = {}
    ns.update({k: getattr(np, k) for k in dir(np) if not k.startswith('_')})
    ns.update({k: getattr(cf, k) for k in dir(cf) if not k.startswith('_')})
    ns['np'] = np
    ns['numpy'] = np
    ns['clifford'] = cf
    N = L.gaDims
    site = dict(layout=tag, sig=[int(x) for x in L.sig])
    for r in range(reps):
        dt = [np.float64, np.int64, np.int32, np.float32, np.complex128][r % 5]
        if dt in (np.float64, np.float32):
            v = np.array([float(Fraction(int(a), 2 ** int(b))) for a, b in zip(gen.int_mv(rng, N), rng.integers(0, 6, size=N))], dtype=dt)
        elif dt == np.complex128:
            v = np.array(gen.int_mv(rng, N)) + 1j * np.array(gen.int_mv(rng, N))
        else:
            v = np.array(gen.int_mv(rng, N), dtype=dt)
        M = MultiVector(L, v)
        cf.ugly()
        try:
            s = repr(M)
        finally:
            cf.pretty()
        res.case(('repr', tag, str(np.dtype(dt)), str(v.tolist())), nontrivial=gen.nontrivial_mv([abs(x) for x in v.tolist()]),
                 sample=dict(layout=tag, repr=s[:160]))
        res.count('repr_' + np.dtype(dt).name)
        inp = dict(site, dtype=np.dtype(dt).name, M=[str(x) for x in v.tolist()], repr=s[:300])
        try:
            E = eval(s, dict(ns))
        except Exception as e:
            res.violate('eval(repr(M)) fails with pretty-printing off', inp, repr(e), 'M', dict(site, op='repr-eval', dtype=np.dtype(dt).name, error=type(e).__name__))
            continue
        ok = isinstance(E, MultiVector) and E.value.dtype == M.value.dtype and np.array_equal(E.value, M.value)
        LE = getattr(E, 'layout', None)
        ok_layout = LE is not None and [int(x) for x in LE.sig] == [int(x) for x in L.sig] \
            and list(LE.names) == list(L.names) \
            and LE._basis_blade_order.index_to_bitmap.tolist() == L._basis_blade_order.index_to_bitmap.tolist() \
            and list(LE._basis_vector_ids.values) == list(L._basis_vector_ids.values)
        if not (ok and ok_layout):
            res.violate("eval(repr(M)) does not reproduce M's layout, dtype and coefficients", inp,
                        [str(getattr(E, 'value', E)), str(getattr(getattr(E, 'value', None), 'dtype', None))], [str(v.tolist()), np.dtype(dt).name],
                        dict(site, op='repr-eval', dtype=np.dtype(dt).name))


MALFORMED = [
    ('unknown-blade', lambda names: f"1 + (2^{names[-1]}zz)"),
    ('unknown-blade2', lambda names: "3^qq9"),
    ('dangling-sign', lambda names: f"(2^{names[1]}) +"),
    ('dangling-wedge', lambda names: "4^"),
    ('two-coeffs', lambda names: f"1 2^{names[1]}"),
    ('two-coeffs2', lambda names: "3.5 4"),
    ('blade-blade', lambda names: f"{names[1]} {names[1]}"),
    ('wedge-first', lambda names: f"^{names[1]}"),
    ('coeff-blade', lambda names: f"2{' '}{names[1]}"),
]


def check_malformed(res, tag, L, ob):
    from clifford._parser import _tokenize
    site = dict(layout=tag, sig=[int(x) for x in L.sig])
    names = [n for n in L.names]
    if len(names) < 2 or not names[1]:
        return
    sidx = int(L._basis_blade_order.bitmap_to_index[0])
    for kind, mk in MALFORMED:
      for npre, prefix in enumerate(("", "1 +\n", "1 +\n 2 +\n", "1 +\n 2 +\n\n   3 +\n")):
        s = prefix + mk(names)
        res.case(('malformed', tag, kind, s))
        res.count('malformed_' + kind)
        res.count('malformed_line%d' % (s.count('\n') + 1))
        try:
            L.parse_multivector(s)
            res.violate('malformed string does not raise SyntaxError', dict(site, string=s, kind=kind), 'parsed', 'SyntaxError', dict(site, op='malformed', kind=kind))
            continue
        except SyntaxError as e:
            err = e
        except Exception as e:
            res.violate('malformed string raises the wrong exception', dict(site, string=s, kind=kind), repr(e), 'SyntaxError', dict(site, op='malformed', kind=kind))
            continue
        if err.lineno is None or err.offset is None or not (1 <= err.offset <= len(s) + 1):
            res.violate('SyntaxError carries no position', dict(site, string=s, kind=kind), [err.lineno, err.offset], 'a position', dict(site, op='malformed-pos', kind=kind))
            continue
        toks = _tokenize(L, s)
        tt = tok_text(toks)
        if tt is not None:
            # model: position = index of the rejected token; real: line number, 1-based column within that line, and the line itself
            spans = [m.span()[0] for _, m, _ in toks]
            ob.raw(f"PARSE {sidx} {L.gaDims} {tt}", None, 'malformed', key=('malformed-model', tag, s))
            ob.meta[-1][3]['check'] = ('errpos', spans, (int(err.lineno), int(err.offset), err.text), s, site, kind)


def position_of(s, pos):
    """(line number, 1-based column, line text) of absolute position pos in s"""
    start = s.rfind('\n', 0, pos) + 1
    end = s.find('\n', pos)
    return s.count('\n', 0, pos) + 1, pos - start + 1, s[start:(len(s) if end < 0 else end)]


def run_job(job, tier, seed):
    import numpy as np
    from clifford import MultiVector
    from clifford._parser import _tokenize
    res = core.Result(job)
    rng = gen.rng_for(seed, 'C19', job)
    layouts = make_layouts(rng, tier)
    reps = 12 if tier == 'quick' else 60
    ob = common.OpBatch()
    for tag, L, exact_names in layouts:
        st = dict(layout=tag, sig=[int(x) for x in L.sig])
        with common.guard(res, 'str/parse round trip', st):
            check_str_parse(res, tag, L, rng, reps, exact_names)
        with common.guard(res, 'repr/eval round trip', st):
            check_repr_eval(res, tag, L, rng, 10 if tier == 'quick' else 40)
        with common.guard(res, 'malformed strings', st):
            check_malformed(res, tag, L, ob)
        # model correspondence: printer tokens and parser on integer multivectors
        N = L.gaDims
        if len(set(L.names)) != N or not exact_names:
            continue
        sidx = int(L._basis_blade_order.bitmap_to_index[0])
        gr = [int(g) for g in L._basis_blade_order.grades]
        for _ in range(reps):
          with common.guard(res, 'tokenizer / parser', dict(layout=tag, sig=[int(x) for x in L.sig])):
              v = gen.int_mv(rng, N)
              M = MultiVector(L, np.array(v, dtype=np.int64))
              toks = _tokenize(L, str(M))
              tt = tok_text(toks)
              terms = ";".join(f"{i}:{1 if gr[i] == 0 else 0}:{c}" for i, c in enumerate(v) if c != 0) or '-'
              st = dict(layout=tag, op='tokens')
              ob.raw(f"TOKS {terms}", tt, 'token stream of str(M) differs from the model printer', key=('toks', tag, tuple(v)), nontrivial=gen.nontrivial_mv(v), site=st)
              parsed = L.parse_multivector(str(M)).value.tolist()
              ob.raw(f"PARSE {sidx} {N} {tt}", "ok " + core.ints([int(x) for x in parsed]), 'parse result differs from the model state machine',
                     key=('parse', tag, tuple(v)), nontrivial=gen.nontrivial_mv(v), site=dict(layout=tag, op='parse'))
    # run the batch; malformed entries carry a custom check
    if ob.lines:
        out = core.drv_batch(ob.lines)
        for line, (kind, _t, _L, m), rep in zip(ob.lines, ob.meta, out):
            if kind != 'raw':
                continue
            chk = m.get('check')
            if chk:
                _, spans, offset, s, site, mk = chk
                res.case(m['key'])
                if not rep.startswith('err '):
                    res.disagree('model parses a string the library rejects', dict(string=s, tokens=line), 'SyntaxError', rep, dict(site, op='malformed-model', kind=mk))
                else:
                    p = int(rep.split()[1])
                    exp_pos = position_of(s, spans[p]) if p < len(spans) else None
                    if exp_pos is None or tuple(offset[:2]) != exp_pos[:2] or (offset[2] is not None and offset[2].rstrip('\n') != exp_pos[2]):
                        # the rejected token is the one the (translator-tied) state machine rejects; its line / column / text are computed here
                        # from the string itself, so this is a failing input of the property's "SyntaxError with a position" clause
                        res.violate('SyntaxError position (line, column, text) is not that of the offending token', dict(site, string=s, kind=mk, tokens=line),
                                    list(offset), list(exp_pos) if exp_pos else None, dict(site, op='malformed-pos', kind=mk, line=(exp_pos[0] if exp_pos else None)))
                continue
            res.case(m['key'] or line, nontrivial=m['nontrivial'])
            if rep != m['observed']:
                res.disagree(m['what'], line, m['observed'], rep, m['site'])
    return res


def replay(obj):
    res = core.Result('replay')
    rng = gen.rng_for(0, 'replay')
    for tag, L, exact_names in make_layouts(rng, 'quick'):
        check_str_parse(res, tag, L, rng, 6, exact_names)
        check_repr_eval(res, tag, L, rng, 5)
        check_malformed(res, tag, L, common.OpBatch())
    for v in res.violations[:5]:
        print('still failing:', v['what'], v['site'])
    return 1 if res.violations else 0
