"""C01 Geometric product realises the Clifford algebra of the declared signature."""
import itertools
from fractions import Fraction

from harness import core, gen, common

ID = 'C01'
LEAN_TARGETS = ['Props.C01']
# Tie A: equivalence theorems generated from the current source by translate/py2lean.py (checked on every run)
TIE_A = ['from_Cl_eq_model'] + ['sig_%s_documented' % m for m in ('g2', 'g3', 'g4', 'g3_1', 'g2c', 'g3c', 'pga', 'pga2d', 'gac', 'dpga', 'dg3c')] + ['cre_eq', 'crs_eq', 'gmt_element_eq'] + ['construct_gmt_eq']
OBLIGATIONS = [
    'C01.reorderSwaps_spec', 'C01.metricLoop_spec', 'C01.bladeSign_eq_spec', 'C01.sign_cocycle',
    'C01.gmul_assoc', 'C01.one_gmul', 'C01.gmul_one', 'C01.left_distrib', 'C01.right_distrib',
    'C01.smul_mul', 'C01.mul_smul',
    'C01.basis_sq', 'C01.basis_anticomm', 'C01.blade_append_generator', 'C01.vector_sq',
    'C01.fromMathlib_ι', 'C01.fromMathlib_surjective', 'C01.model_is_the_clifford_algebra', 'C01.model_iso_apply_ι', 'C01.model_universal_property', 'C01.sigOfCl_spec', 'C01.table_contraction_is_canonical_product', 'C01.executable_product_is_canonical',
]
PENDING = ['the arrays built by BasisBladeOrder (index_to_bitmap / bitmap_to_index mutually inverse) enter the storage-level theorem as its hypothesis and are compared with the implementation, not derived from mkLayout']
RULE = ("layouts: exhaustive {+1,-1,0}^n signatures for small n, seeded random signatures/ids/orders above; "
        "multivectors: integer/dyadic/Gaussian-integer coefficient vectors (dense, k-sparse, half-dense, big). "
        "A case is non-trivial when the layout has n>=1 and, for products, both operands are non-zero and not both scalars; "
        "distinct = distinct canonical request text")
ASSUMPTIONS = ["sparse.COO stores what it is given (entry order canonicalised by sorting)",
               "int64 arithmetic does not overflow on the generated magnitudes (|coeff| <= 2^20, n <= 8)"]


def jobs(tier, seed):
    return [dict(name='tables', jit=False, timeout=2400), dict(name='ops_jit', jit=True, timeout=2400)]


# ---------------------------------------------------------------- helpers (real code)

def _layout_cases(tier, seed):
    """list of dicts: sig, ids, first, order"""
    rng = gen.rng_for(seed, 'C01', 'layouts')
    cases = []
    nmax_ex = 3 if tier == 'quick' else 5
    for n in range(0, nmax_ex + 1):
        for s in gen.all_signatures(n):
            cases.append(dict(sig=s, ids=None, first=None, order=None))
    rnd = {4: 10, 5: 6, 6: 4, 7: 2} if tier == 'quick' else {6: 40, 7: 20, 8: 6}
    for n, cnt in rnd.items():
        for _ in range(cnt):
            cases.append(dict(sig=gen.random_signature(rng, n), ids=None, first=None, order=None))
    # custom ids and orders
    for _ in range(30 if tier == 'quick' else 150):
        n = int(rng.integers(1, 5))
        ids, first = gen.random_ids(rng, n)
        cases.append(dict(sig=gen.random_signature(rng, n), ids=ids, first=first, order=gen.random_order(rng, n)))
    return cases


def check_layout_predicates(res, L, rng, tag, light=False):
    """model-free predicates of C01 on a real layout; every failure is a concrete violating input"""
    import numpy as np
    from harness import real
    from clifford import MultiVector
    n = L.dims
    N = L.gaDims
    sig = [int(x) for x in L.sig]
    site = dict(sig=sig, ids=list(map(str, L._basis_vector_ids.values)),
                order=L._basis_blade_order.index_to_bitmap.tolist() if N <= 32 else 'large')
    E = L.basis_vectors_lst
    one = MultiVector(L, np.zeros(N, dtype=np.int64))
    one.value[L._basis_blade_order.bitmap_to_index[0]] = 1

    def eq(a, b):
        return np.array_equal(np.asarray(a.value), np.asarray(b.value))
    # generator relations
    for i in range(n):
        sq = E[i] * E[i]
        res.case(('gen_sq', tag, i), nontrivial=True)
        if not eq(sq, sig[i] * one):
            res.violate('generator square: e_i*e_i != sig_i', dict(site, i=i), sq.value.tolist(), sig[i], site)
        for j in range(i + 1, n):
            res.case(('gen_anti', tag, i, j))
            if not eq(E[i] * E[j], -(E[j] * E[i])):
                res.violate('generators do not anticommute', dict(site, i=i, j=j), (E[i] * E[j]).value.tolist(),
                            (-(E[j] * E[i])).value.tolist(), site)
    # blade named by ids is the ordered product of those basis vectors
    idvals = list(L._basis_vector_ids.values)
    idxs = range(N) if N <= 64 else rng.choice(N, size=64, replace=False)
    for idx in idxs:
        tup = L._index_as_tuple(int(idx))
        prod = one
        for t in tup:
            prod = prod * E[idvals.index(t)]
        res.case(('naming', tag, int(idx)), nontrivial=len(tup) >= 1)
        if not eq(prod, L._basis_blade(int(idx))):
            res.violate('blade named by ids is not the ordered product of its basis vectors',
                        dict(site, index=int(idx), ids=list(map(str, tup))), prod.value.tolist(),
                        L._basis_blade(int(idx)).value.tolist(), site)
    if light:
        return
    # identity, associativity, bilinearity, quadratic form on integer multivectors
    reps = 6 if N <= 64 else 2
    for r in range(reps):
        A, B, C = (MultiVector(L, np.array(gen.int_mv(rng, N), dtype=np.int64)) for _ in range(3))
        key = (tag, A.value.tolist(), B.value.tolist(), C.value.tolist())
        nt = gen.nontrivial_mv(A.value) and gen.nontrivial_mv(B.value) and gen.nontrivial_mv(C.value)
        res.case(('assoc',) + key, nontrivial=nt)
        l, rr = (A * B) * C, A * (B * C)
        if not eq(l, rr):
            res.violate('associativity fails', dict(site, A=A.value.tolist(), B=B.value.tolist(), C=C.value.tolist()),
                        l.value.tolist(), rr.value.tolist(), site)
        res.case(('unit',) + key[:2], nontrivial=nt)
        if not (eq(one * A, A) and eq(A * one, A) and eq(1 * A, A) and eq(A * 1, A)):
            res.violate('1 is not the identity', dict(site, A=A.value.tolist()), (one * A).value.tolist(), A.value.tolist(), site)
        res.case(('bilinear',) + key, nontrivial=nt)
        if not (eq((A + B) * C, A * C + B * C) and eq(A * (B + C), A * B + A * C) and eq((3 * A) * B, 3 * (A * B))
                and eq(A * (B * 5), (A * B) * 5)):
            res.violate('product is not bilinear', dict(site, A=A.value.tolist(), B=B.value.tolist(), C=C.value.tolist()),
                        ((A + B) * C).value.tolist(), (A * C + B * C).value.tolist(), site)
        # bilinearity for float and complex data across magnitudes: scaling by a power of two is exact, so
        # (2^-k A)(2^k B) = AB, 1*(2^-k A) = 2^-k A and (i 2^-k A) B = i 2^-k (AB) hold bit for bit
        Af, Bf = A.astype(np.float64), B.astype(np.float64)
        if np.max(np.abs(A.value)) <= 64 and np.max(np.abs(B.value)) <= 64:
            AB = Af * Bf
            for k in (45, 60):
                lo, hi = 2.0 ** -k, 2.0 ** k
                res.case(('bilinear-scale', tag, k) + key[1:3], nontrivial=nt)
                res.count('bilinear_scale')
                got = (lo * Af) * (hi * Bf)
                got2 = (one.astype(np.float64)) * (lo * Af)
                got3 = ((1j * lo) * Af) * Bf
                if not (np.array_equal(got.value, AB.value) and np.array_equal(got2.value, (lo * Af).value)
                        and np.array_equal(got3.value, (1j * lo) * AB.value)):
                    res.violate('product is not bilinear across magnitudes (float/complex data scaled by powers of two)',
                                dict(site, A=A.value.tolist(), B=B.value.tolist(), k=k), got.value.tolist(), AB.value.tolist(), dict(site, op='bilinear-scale'))
        # v*v = Q(v)
        coef = [int(x) for x in rng.integers(-9, 10, size=n)]
        v = one * 0
        for c, e in zip(coef, E):
            v = v + c * e
        q = sum(s * c * c for s, c in zip(sig, coef))
        res.case(('vsq', tag, tuple(coef)), nontrivial=any(coef))
        if not eq(v * v, q * one):
            res.violate('v*v is not the quadratic form of the signature', dict(site, v=coef), (v * v).value.tolist(), q, site)


def check_legacy_constructor(res, rng):
    """the deprecated `Layout(sig, bladeTupList, firstIdx)` constructor: every blade named by the id tuple (i1..ik) it was given is the
    ordered product of those basis vectors; a tuple whose order is an odd permutation of the storage order cannot be represented
    (no sign flips in storage) and must be refused, never accepted with the sign dropped"""
    import itertools
    import warnings
    import numpy as np
    from clifford import Layout
    for n in (2, 3, 4):
        for first in (1, 0):
            sig = gen.random_signature(rng, n)
            idv = list(range(first, first + n))
            canon = [t for k in range(n + 1) for t in itertools.combinations(idv, k)]
            variants = [('canonical', list(canon))]
            sh = list(canon)
            rng.shuffle(sh)
            variants.append(('shuffled-order', [tuple(t) for t in sh]))
            if n >= 3:
                ev = [t if len(t) != 3 else (t[1], t[2], t[0]) for t in canon]        # even permutation inside the 3-blades
                variants.append(('even-permuted', ev))
            od = [t if len(t) != 2 else (t[1], t[0]) for t in canon]                  # odd permutation inside the 2-blades
            variants.append(('odd-permuted', od))
            for vname, tups in variants:
                site = dict(sig=[int(x) for x in sig], firstIdx=first, variant=vname)
                res.case(('legacy', n, first, vname, str(tups)), nontrivial=True)
                res.count('legacy_' + vname)
                try:
                    with warnings.catch_warnings():
                        warnings.simplefilter('ignore')
                        L = Layout(list(sig), tups, firstIdx=first)
                except NotImplementedError:
                    if vname != 'odd-permuted':
                        res.violate('the legacy constructor refuses a representable blade list', dict(site, tuples=[list(t) for t in tups]), 'NotImplementedError', 'a Layout',
                                    dict(site, op='legacy-refused'))
                    continue
                E = L.basis_vectors_lst
                one = 1 + 0 * E[0]
                for t, name in zip(tups, L.names):
                    prod = one
                    for i_ in t:
                        prod = prod * E[i_ - first]
                    if not np.array_equal(L.blades[name].value if name in L.blades else np.zeros(L.gaDims), prod.value) and t:
                        res.violate('legacy constructor: the blade named by the id tuple (i1..ik) is not the ordered product of those basis vectors',
                                    dict(site, tuple=list(t), name=name), L.blades[name].value.tolist() if name in L.blades else None, prod.value.tolist(),
                                    dict(site, op='legacy-blade'))
                        break


def check_signature_array(res, rng):
    """an algebra built from an explicit signature *array* is the algebra of the signature it was given: what the caller does to the
    array afterwards (before or after the first product) changes neither the products nor `layout.sig`"""
    import numpy as np
    import clifford as cf
    for n in (2, 3, 4):
        for when in ('before-first-product', 'after-first-product'):
            sig0 = [int(x) for x in rng.choice([1, -1, 0], size=n)]
            if all(x == sig0[0] for x in sig0):
                sig0[0] = -sig0[0] if sig0[0] else 1
            arr = np.array(sig0, dtype=int)
            L = cf.Layout(arr)
            E = L.basis_vectors_lst
            if when == 'after-first-product':
                _ = E[0] * E[0]
            arr[:] = [(-x if x else 1) for x in sig0]        # the caller reuses its array
            site = dict(sig=sig0, op='signature-array', when=when)
            res.case(('sig-array', tuple(sig0), when), nontrivial=True)
            res.count('sig_array')
            got = [int((e * e).value[0]) for e in E]
            if got != sig0 or [int(x) for x in L.sig] != sig0:
                res.violate('a layout built from a signature array follows later changes of that array', site, dict(squares=got, layout_sig=[int(x) for x in L.sig]),
                            sig0, site)


def _compare_tables(res, layouts, which=('gmt',)):
    """layouts: list of (tag, real layout). Compares order arrays and tables with the model."""
    from harness import real
    lines = []
    meta = []
    for tag, L in layouts:
        lines.append(real.layout_line(tag, L))
        meta.append((tag, L, 'layout'))
        lines.append(f"ORDER {tag}")
        meta.append((tag, L, 'order'))
        for w in which:
            lines.append(f"TABLE {tag} {w}")
            meta.append((tag, L, w))
    out = core.drv_batch(lines)
    for (tag, L, what), line, rep in zip(meta, lines, out):
        site = dict(sig=[int(x) for x in L.sig], what=what)
        if what == 'layout':
            if rep != 'ok':
                res.disagree('model rejects a layout the library accepts', line, 'accepted', rep, site)
            continue
        if what == 'order':
            o = L._basis_blade_order
            mine = f"{core.ints(o.index_to_bitmap.tolist())} {core.ints([int(g) for g in o.grades])} {core.ints(o.bitmap_to_index.tolist())}"
            res.case(('order', line, mine), nontrivial=L.dims >= 1,
                     sample=dict(request=line, sig=site['sig'], index_to_bitmap=o.index_to_bitmap.tolist()[:16]))
            m = rep.replace(str(L.gaDims) + ',', 'X,') if False else rep
            # bitmap_to_index: the library uses -1 for missing, the model uses gaDims
            mine_c = mine.replace('-1', str(L.gaDims))
            if rep != mine_c:
                res.disagree('storage order arrays (index_to_bitmap, grades, bitmap_to_index)', line, mine_c, rep, site)
            continue
        cnt, txt = real.table_text(getattr(L, what))
        mine = f"{cnt} {core.fnv64(txt)}"
        res.case(('table', what, line, mine), nontrivial=L.dims >= 1)
        res.count(f'table_n{L.dims}')
        if rep != mine:
            res.disagree(f'{what} table differs from the model', dict(layout=real.layout_line(tag, L), table=what), mine, rep, site)


def run_job(job, tier, seed):
    import numpy as np
    import clifford as cf
    from harness import real
    res = core.Result(job)
    rng = gen.rng_for(seed, 'C01', job)
    if job == 'tables':
        cases = _layout_cases(tier, seed)
        layouts = []
        for i, c in enumerate(cases):
            try:
                L = real.make_layout(c['sig'], c['ids'], c['first'], c['order'])
            except Exception as e:   # the library rejects a well-formed layout: that is a C01/C07 failure
                res.violate('library rejects a well-formed layout', c, repr(e), 'a Layout', dict(sig=c['sig']))
                continue
            layouts.append((f"L{i}", L))
            res.count('sig_degenerate' if 0 in c['sig'] else 'sig_nondegenerate')
            res.count('order_custom' if c['order'] is not None else 'order_shortlex')
            res.count('ids_custom' if (c['ids'] is not None or c['first'] not in (None, 1)) else 'ids_default')
        common.gcall(res, _compare_tables, layouts)
        for tag, L in layouts:
            common.gcall(res, check_layout_predicates, L, rng, tag, light=(L.gaDims > 64 and tier == 'quick'))
        common.gcall(res, check_signature_array, rng)
        common.gcall(res, check_legacy_constructor, rng)
        # predefined algebra modules: documented signature, table, predicates
        pre = []
        for name, (attr, sig) in real.PREDEFINED.items():
            if name == 'dg3c' and tier == 'quick':
                continue
            L = real.predefined(name)
            res.case(('predefined', name), sample=dict(module=name, sig=[int(x) for x in L.sig]))
            if [int(x) for x in L.sig] != sig:
                res.violate('predefined module does not export the documented signature', dict(module=name),
                            [int(x) for x in L.sig], sig, dict(module=name))
            if L.gaDims <= 256:
                pre.append((f"P_{name.replace(':', '_')}", L))
            if L.gaDims <= 32:
                common.gcall(res, check_layout_predicates, L, rng, name)
            else:
                common.gcall(res, check_layout_predicates, L, rng, name, light=True)
        common.gcall(res, _compare_tables, pre)
        # the sign kernels called directly
        from clifford._layout import gmt_element, canonical_reordering_sign
        from clifford._layout_helpers import canonical_reordering_sign_euclidean
        from clifford._bit_helpers import count_set_bits, set_bit_indices
        lines, mine = [], []
        m = 1500 if tier == 'quick' else 20000
        for _ in range(m):
            bits = int(rng.choice([3, 6, 10, 20, 40]))
            a = int(rng.integers(0, 2 ** bits))
            b = int(rng.integers(0, 2 ** bits))
            sg = [int(x) for x in rng.choice([1, -1, 0, 2, -3], size=bits, p=[.4, .35, .15, .05, .05])]
            bm, s = gmt_element(a, b, np.array(sg))
            lines.append(f"SIGN {a} {b} {core.ints(sg)}")
            mine.append(f"{int(bm)} {int(s)}")
            lines.append(f"SIGNE {a} {b}")
            mine.append(f"{int(canonical_reordering_sign_euclidean(a, b))}")
            lines.append(f"POP {a}")
            mine.append(f"{bin(a).count('1')} {int(count_set_bits(a))} {core.ints(list(set_bit_indices(a)))}".replace(' -', ' '))
            s2 = int(canonical_reordering_sign(a, b, np.array(sg)))
            if s2 != int(s):
                res.disagree('gmt_element sign != canonical_reordering_sign', dict(a=a, b=b, sig=sg), int(s), s2)
        out = core.drv_batch(lines)
        for l, mi, o in zip(lines, mine, out):
            if l.startswith('POP'):
                # model prints "pop pop list"; an empty list prints as empty string
                o = o.rstrip()
                mi = mi.rstrip()
            res.case(('kernel', l), nontrivial=True)
            if o != mi:
                res.disagree('bit kernel differs from the model', l, mi, o, dict(what='kernel'))
        res.count('kernel_calls', len(lines))
    elif job == 'ops_jit':
        # JIT on: tables and the * operator on int / dyadic float / complex data
        cases = []
        for n in range(1, 5):
            cases.append(dict(sig=gen.random_signature(rng, n), ids=None, first=None, order=None))
        for _ in range(2):
            n = int(rng.integers(2, 4))
            ids, first = gen.random_ids(rng, n)
            cases.append(dict(sig=gen.random_signature(rng, n), ids=ids, first=first, order=gen.random_order(rng, n, 'perm')))
        if tier == 'thorough':
            for n in (5, 6):
                cases.append(dict(sig=gen.random_signature(rng, n), ids=None, first=None, order=None))
        layouts = [(f"J{i}", real.make_layout(c['sig'], c['ids'], c['first'], c['order'])) for i, c in enumerate(cases)]
        common.gcall(res, _compare_tables, layouts)
        lines, meta = [], []
        for tag, L in layouts:
            lines.append(real.layout_line(tag, L))
            meta.append(None)
            N = L.gaDims
            for r in range(12 if tier == 'quick' else 40):
                kind = ['int', 'float', 'complex'][r % 3]
                if kind == 'int':
                    a, b = gen.int_mv(rng, N), gen.int_mv(rng, N)
                    A = cf.MultiVector(L, np.array(a, dtype=np.int64))
                    B = cf.MultiVector(L, np.array(b, dtype=np.int64))
                    parts = [(a, b, 1)]
                elif kind == 'float':
                    a, b = gen.dyadic_mv(rng, N), gen.dyadic_mv(rng, N)
                    A = cf.MultiVector(L, np.array([float(x) for x in a]))
                    B = cf.MultiVector(L, np.array([float(x) for x in b]))
                    parts = [(a, b, 1)]
                else:
                    ar, ai, br, bi = (gen.int_mv(rng, N) for _ in range(4))
                    A = cf.MultiVector(L, np.array(ar) + 1j * np.array(ai))
                    B = cf.MultiVector(L, np.array(br) + 1j * np.array(bi))
                    parts = [(ar, br, 1), (ai, bi, -1), (ar, bi, 1j), (ai, br, 1j)]
                P = A * B
                Pr = B.__rmul__(A)
                if not np.array_equal(P.value, Pr.value):
                    res.violate('A*B != B.__rmul__(A)', dict(A=A.value.tolist(), B=B.value.tolist()), P.value.tolist(), Pr.value.tolist(),
                                dict(sig=[int(x) for x in L.sig]))
                for (x, y, w) in parts:
                    lines.append(f"OP {tag} gp {core.mvstr(x)} {core.mvstr(y)}")
                    meta.append((tag, L, kind, A, B, P, parts))
        out = core.drv_batch(lines)
        # regroup replies per product
        acc = {}
        for l, m, o in zip(lines, meta, out):
            if m is None:
                continue
            key = id(m[5])
            acc.setdefault(key, (m, []))[1].append(core.parse_mv(o))
        for key, (m, reps) in acc.items():
            tag, L, kind, A, B, P, parts = m
            N = L.gaDims
            if kind == 'complex':
                re = [reps[0][i] - reps[1][i] for i in range(N)]
                im = [reps[2][i] + reps[3][i] for i in range(N)]
                obs_re = [core.frac(z.real) for z in P.value.tolist()]
                obs_im = [core.frac(z.imag) for z in P.value.tolist()]
                ok = (re == obs_re and im == obs_im)
                exp = [re, im]
                obs = [obs_re, obs_im]
            else:
                exp = reps[0]
                obs = [core.frac(x) for x in P.value.tolist()]
                ok = exp == obs
            nt = gen.nontrivial_mv(A.value.tolist()) and gen.nontrivial_mv(B.value.tolist())
            res.case(('gp', tag, kind, A.value.tolist(), B.value.tolist()), nontrivial=nt,
                     sample=dict(sig=[int(x) for x in L.sig], kind=kind, A=A.value.tolist()[:8], B=B.value.tolist()[:8]))
            res.count('gp_' + kind)
            if not ok:
                res.disagree('A*B differs from the model product', dict(layout=real.layout_line(tag, L), kind=kind,
                             A=A.value.tolist(), B=B.value.tolist()), obs, exp, dict(sig=[int(x) for x in L.sig]))
        for tag, L in layouts:
            common.gcall(res, check_layout_predicates, L, rng, tag)
    else:
        raise ValueError(job)
    return res


def replay(obj):
    """re-evaluate a recorded violation on the current real code; exit 1 if it still fails"""
    import numpy as np
    from harness import real
    site = obj.get('site', {})
    inp = obj.get('input', {})
    if 'module' in site:
        L = real.predefined(site['module'])
    else:
        ids = inp.get('ids') if isinstance(inp, dict) else None
        order = site.get('order')
        L = real.make_layout(site['sig'], None, None, order if isinstance(order, list) else None)
    res = core.Result('replay')
    check_layout_predicates(res, L, gen.rng_for(0, 'replay'), 'replay')
    for v in res.violations:
        print('still failing:', v['what'], v['input'])
    return 1 if res.violations else 0
