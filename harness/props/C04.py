"""C04 Reversion, grade involution, conjugation and the norm follow their grade laws."""
import math
from fractions import Fraction

from harness import core, gen, common
from harness.props import C01

ID = 'C04'
LEAN_TARGETS = ['Props.C04']
# Tie A: equivalence theorems generated from the current source by translate/py2lean.py (checked on every run)
TIE_A = ['rev_exponent_parity', 'gi_exponent_parity'] + ['meth_conjugate_eq', 'meth_even_eq', 'meth_odd_eq', 'meth_mag2_eq'] + ['lay_involutions_eq']
OBLIGATIONS = [
    'C04.rev_exponent_as_coded', 'C04.gi_exponent_as_coded', 'C04.rev_sign_periodic', 'C04.rev_sign_values',
    'C04.rev_on_grade', 'C04.gi_on_grade', 'C04.conj_on_grade',
    'C04.rev_involutive', 'C04.gi_involutive', 'C04.conj_involutive',
    'C04.rev_antiautomorphism', 'C04.conj_antiautomorphism', 'C04.gi_automorphism',
    'C04.even_add_odd', 'C04.gi_even', 'C04.gi_odd', 'C04.even_as_coded', 'C04.odd_as_coded',
    'C04.mag2_diagonal', 'C04.normal_spec',
    'C04.reversion_in_storage_order', 'C04.grade_involution_in_storage_order', 'C04.grade_projection_in_storage_order',
    'C04.grade_involution_is_mathlib_involute', 'C04.reversion_is_mathlib_reverse', 'C04.conjugation_is_mathlib',
]
PENDING = []
RULE = ("layouts: exhaustive small signatures, random up to n=8, custom ids/orders for the involutions; multivectors: integer and dyadic "
        "coefficient vectors; non-trivial = operand has a non-scalar non-zero coefficient; distinct = distinct (layout, operand, clause) text")
ASSUMPTIONS = C01.ASSUMPTIONS + ["np.sqrt is correctly rounded (compared with math.sqrt)"]


def jobs(tier, seed):
    return [dict(name='laws', jit=False, timeout=2400), dict(name='laws_jit', jit=True, timeout=2400)]


def rev_sign(k):
    return -1 if (k * (k - 1) // 2) % 2 else 1


def check_laws(res, L, rng, tag, reps, default_order):
    import numpy as np
    n, N = L.dims, L.gaDims
    gr = np.array(common.grades_of(L))
    site = common.site_of(L)
    sig = [int(x) for x in L.sig]
    i2b = L._basis_blade_order.index_to_bitmap.tolist()
    for _ in range(reps):
        A = common.mv(L, gen.int_mv(rng, N))
        B = common.mv(L, gen.int_mv(rng, N))
        key = (tag, A.value.tolist(), B.value.tolist())
        nt = gen.nontrivial_mv(A.value.tolist())
        inp = dict(site, A=A.value.tolist(), B=B.value.tolist())
        # per-grade sign laws (independent computation from the grade array)
        res.case(('signs',) + key[:2], nontrivial=nt)
        exp_rev = np.array([rev_sign(int(g)) for g in gr]) * A.value
        exp_gi = np.array([(-1) ** int(g) for g in gr]) * A.value
        if not np.array_equal((~A).value, exp_rev) or not np.array_equal(A.adjoint().value, exp_rev):
            res.violate('~M does not multiply grade k by (-1)^(k(k-1)/2)', inp, (~A).value.tolist(), exp_rev.tolist(), dict(site, op='rev'))
        if not np.array_equal(A.gradeInvol().value, exp_gi):
            res.violate('gradeInvol does not multiply grade k by (-1)^k', inp, A.gradeInvol().value.tolist(), exp_gi.tolist(), dict(site, op='gi'))
        exp_cj = np.array([rev_sign(int(g)) * (-1) ** int(g) for g in gr]) * A.value
        if not np.array_equal(A.conjugate().value, exp_cj):
            res.violate('conjugate is not reversion times grade involution', inp, A.conjugate().value.tolist(), exp_cj.tolist(), dict(site, op='conj'))
        # involutions
        res.case(('invol',) + key[:2], nontrivial=nt)
        if not (common.eq(~~A, A) and common.eq(A.gradeInvol().gradeInvol(), A) and common.eq(A.conjugate().conjugate(), A)):
            res.violate('an involution is not involutive', inp, None, None, dict(site, op='involution'))
        # (anti)automorphisms
        res.case(('anti',) + key, nontrivial=nt and gen.nontrivial_mv(B.value.tolist()))
        if not common.eq(~(A * B), (~B) * (~A)):
            res.violate('~(AB) != ~B ~A', inp, (~(A * B)).value.tolist(), ((~B) * (~A)).value.tolist(), dict(site, op='rev-anti'))
        if not common.eq((A * B).conjugate(), B.conjugate() * A.conjugate()):
            res.violate('conj(AB) != conj(B) conj(A)', inp, None, None, dict(site, op='conj-anti'))
        if not common.eq((A * B).gradeInvol(), A.gradeInvol() * B.gradeInvol()):
            res.violate('gradeInvol(AB) != gradeInvol(A) gradeInvol(B)', inp, None, None, dict(site, op='gi-auto'))
        # even / odd
        res.case(('evenodd',) + key[:2], nontrivial=nt)
        ev, od = A.even, A.odd
        exp_ev = np.where(gr % 2 == 0, A.value, 0)
        exp_od = np.where(gr % 2 == 1, A.value, 0)
        if not (np.array_equal(ev.value, exp_ev) and np.array_equal(od.value, exp_od) and np.array_equal((ev + od).value, A.value)
                and common.eq(ev.gradeInvol(), ev) and common.eq(od.gradeInvol(), -od)):
            res.violate('even/odd are not the +/- parts under gradeInvol summing to M', inp, [ev.value.tolist(), od.value.tolist()],
                        [exp_ev.tolist(), exp_od.tolist()], dict(site, op='evenodd'))
        if not default_order:
            continue
        # mag2 = scalar part of ~M*M = sum_a A_a^2 prod_{i in a} sig_i
        res.case(('mag2',) + key[:2], nontrivial=nt)
        m2 = A.mag2()
        exp = 0
        for idx, bm in enumerate(i2b):
            p = 1
            for i in range(n):
                if (bm >> i) & 1:
                    p *= sig[i]
            exp += int(A.value[idx]) ** 2 * p
        sc = int(((~A) * A).value[0])
        if int(m2) != exp or sc != exp:
            res.violate('mag2 is not the scalar part of ~M*M', inp, int(m2), exp, dict(site, op='mag2'))
        # abs = sqrt(|mag2|)
        a = abs(A)
        res.case(('abs',) + key[:2], nontrivial=nt)
        if float(a) != math.sqrt(abs(exp)):
            res.violate('abs(M) is not sqrt(|mag2|)', inp, float(a), math.sqrt(abs(exp)), dict(site, op='abs'))
        # normal
        if exp != 0:
            res.case(('normal',) + key[:2], nontrivial=nt)
            Nn = A.normal()
            c = 1.0 / math.sqrt(abs(exp))
            ok = np.allclose(Nn.value, c * A.value, rtol=1e-13, atol=0)
            m2n = float(Nn.mag2())
            tgt = 1.0 if exp > 0 else -1.0
            if not ok or abs(m2n - tgt) > 1e-12:
                res.violate('normal() is not a positive multiple of M with mag2 = +-1', inp, [Nn.value.tolist(), m2n],
                            [(c * A.value).tolist(), tgt], dict(site, op='normal'))
            # the same direction at other magnitudes (powers of two: exact in floating point), positive and negative leading coefficients alike
            for e2 in (-45, -30, 40):
                res.case(('normal-scaled', e2) + key[:2], nontrivial=nt)
                As = (2.0 ** e2) * A
                Ns = As.normal()
                if not np.allclose(Ns.value, c * A.value, rtol=1e-12, atol=0):
                    res.violate('normal() of a scaled multivector is not the positive multiple of M with mag2 = +-1', dict(inp, scale=f'2^{e2}'), Ns.value.tolist(),
                                (c * A.value).tolist(), dict(site, op='normal-scaled', scale=e2))


def check_signs_big(res, rng, dims):
    """the per-grade sign laws in dimensions the product laws cannot afford (no table is built: reversion, grade involution, conjugation,
    even and odd are coefficient-wise), with the grade of every slot computed here from its bitmap"""
    import numpy as np
    from harness import real
    for n in dims:
        for order in (None, gen.random_order(rng, n, 'perm')):
            L = real.make_layout(gen.random_signature(rng, n), None, None, order)
            N = L.gaDims
            site = common.site_of(L)
            gr = np.array([bin(int(b)).count('1') for b in L._basis_blade_order.index_to_bitmap.tolist()])
            A = common.mv(L, [int(x) for x in rng.integers(-3, 4, size=N)])
            # every slot of the top basis vectors is hit: force non-zero coefficients there
            A.value[A.value == 0] = 1
            res.case(('signs-big', n, order is None, A.value.tolist()[:16]), nontrivial=True)
            res.count('signs_big_n%d' % n)
            inp = dict(site, A='all slots non-zero, first 16: %s' % A.value.tolist()[:16])
            rv = np.array([rev_sign(int(g)) for g in gr])
            gi = np.array([(-1) ** int(g) for g in gr])
            if not np.array_equal((~A).value, rv * A.value):
                res.violate('~M does not multiply grade k by (-1)^(k(k-1)/2)', inp, None, None, dict(site, op='rev-big'))
            if not np.array_equal(A.gradeInvol().value, gi * A.value):
                bad = np.nonzero(A.gradeInvol().value != gi * A.value)[0][:5].tolist()
                res.violate('gradeInvol does not multiply grade k by (-1)^k', dict(inp, slots=bad), None, None, dict(site, op='gi-big'))
            if not np.array_equal(A.conjugate().value, rv * gi * A.value):
                res.violate('conjugate is not reversion times grade involution', inp, None, None, dict(site, op='conj-big'))
            if not (np.array_equal(A.even.value, np.where(gr % 2 == 0, A.value, 0)) and np.array_equal(A.odd.value, np.where(gr % 2 == 1, A.value, 0))):
                res.violate('even/odd are not the even-/odd-grade parts', inp, None, None, dict(site, op='evenodd-big'))


def check_complex(res, L, rng, tag, reps):
    """complex coefficients: the grade laws and mag2 = <~M M>_0 are algebraic (no conjugation of coefficients)"""
    import numpy as np
    from clifford import MultiVector
    n, N = L.dims, L.gaDims
    gr = np.array(common.grades_of(L))
    site = common.site_of(L)
    sig = [int(x) for x in L.sig]
    i2b = L._basis_blade_order.index_to_bitmap.tolist()
    for _ in range(reps):
        a = np.array(gen.int_mv(rng, N)) + 1j * np.array(gen.int_mv(rng, N))
        b = np.array(gen.int_mv(rng, N)) + 1j * np.array(gen.int_mv(rng, N))
        A, B = MultiVector(L, a), MultiVector(L, b)
        inp = dict(site, A=[str(x) for x in a.tolist()], B=[str(x) for x in b.tolist()])
        res.case(('complex', tag, str(a.tolist()), str(b.tolist())), nontrivial=bool(np.any(a.imag)))
        res.count('complex')
        exp_rev = np.array([rev_sign(int(g)) for g in gr]) * a
        if not np.array_equal((~A).value, exp_rev) or not np.array_equal(A.gradeInvol().value, np.array([(-1) ** int(g) for g in gr]) * a):
            res.violate('~M / gradeInvol on complex coefficients do not follow the grade laws', inp, (~A).value.tolist(), exp_rev.tolist(), dict(site, op='rev-complex'))
        if not np.array_equal((~(A * B)).value, ((~B) * (~A)).value):
            res.violate('~(AB) != ~B ~A (complex)', inp, None, None, dict(site, op='rev-anti-complex'))
        if common.is_shortlex(L):
            exp = 0
            for idx, bm in enumerate(i2b):
                p = 1
                for i in range(n):
                    if (bm >> i) & 1:
                        p *= sig[i]
                exp += complex(a[idx]) ** 2 * p
            m2 = complex(A.mag2())
            sc = complex(((~A) * A).value[0])
            if m2 != exp or sc != exp:
                res.violate('mag2 is not the scalar part of ~M*M (complex coefficients)', inp, str(m2), str(exp), dict(site, op='mag2-complex'))
            if float(abs(A)) != float(np.sqrt(abs(exp))):
                res.violate('abs(M) is not sqrt(|mag2|) (complex coefficients)', inp, float(abs(A)), float(np.sqrt(abs(exp))), dict(site, op='abs-complex'))


def correspondence(res, layouts, rng, reps, label, dtypes=('int',)):
    import numpy as np
    ob = common.OpBatch()
    for tag, L in layouts:
        N = L.gaDims
        # sign vectors as the library builds them
        ob.op(tag, L, 'revsigns', [], core.ints(L.adjoint_func(np.ones(N, dtype=np.int64)).tolist()))
        from clifford import MultiVector
        ob.op(tag, L, 'gisigns', [], core.ints(L._grade_invol(MultiVector(L, np.ones(N, dtype=np.int64))).value.tolist()))
        for r in range(reps):
            dt = dtypes[r % len(dtypes)]
            if dt == 'int':
                a = gen.int_mv(rng, N)
                A = common.mv(L, a)
            else:
                a = gen.dyadic_mv(rng, N)
                A = common.mv(L, [float(x) for x in a], np.float64)
            nt = gen.nontrivial_mv(a)
            sa = core.mvstr(a)
            ob.op(tag, L, 'rev', [sa], (~A).value, nontrivial=nt)
            ob.op(tag, L, 'gi', [sa], A.gradeInvol().value, nontrivial=nt)
            ob.op(tag, L, 'conj', [sa], A.conjugate().value, nontrivial=nt)
            if common.is_shortlex(L):
                ob.op(tag, L, 'mag2', [sa], core.fstr(A.mag2()), nontrivial=nt)
    ob.run(res, label)


def run_job(job, tier, seed):
    from harness import real
    res = core.Result(job)
    rng = gen.rng_for(seed, 'C04', job)
    if job == 'laws':
        cases = common.layout_cases(tier, seed, 'C04', rnd_quick={4: 8, 5: 4, 6: 3, 7: 1, 8: 1}, rnd_thorough={6: 20, 7: 8, 8: 3, 9: 1})
        layouts = common.build_layouts(res, cases)
        for tag, L in layouts:
            common.gcall(res, check_laws, L, rng, tag, reps=3 if L.gaDims <= 64 else 1, default_order=common.is_shortlex(L))
            if L.gaDims <= 64:
                common.gcall(res, check_complex, L, rng, tag, 2)
        common.gcall(res, correspondence, [(t, L) for t, L in layouts if L.gaDims <= 128], rng, 2 if tier == 'quick' else 6, 'nojit')
        common.gcall(res, check_signs_big, rng, (9, 10, 11) if tier == 'quick' else (9, 10, 11, 12, 13))
        for name in ('g3c', 'pga', 'sta:D'):
            L = real.predefined(name)
            common.gcall(res, check_laws, L, rng, name, reps=3, default_order=True)
    elif job == 'laws_jit':
        cases = [dict(sig=gen.random_signature(rng, n)) for n in (1, 2, 3, 4, 5)]
        n = int(rng.integers(2, 4))
        ids, first = gen.random_ids(rng, n)
        cases.append(dict(sig=gen.random_signature(rng, n), ids=ids, first=first, order=gen.random_order(rng, n, 'perm')))
        if tier == 'thorough':
            cases += [dict(sig=gen.random_signature(rng, n)) for n in (6, 7)]
        layouts = common.build_layouts(res, cases, prefix='J')
        for tag, L in layouts:
            common.gcall(res, check_laws, L, rng, tag, reps=4, default_order=common.is_shortlex(L))
            common.gcall(res, check_complex, L, rng, tag, 2)
        common.gcall(res, correspondence, layouts, rng, 6 if tier == 'quick' else 20, 'jit', dtypes=('int', 'float'))
    else:
        raise ValueError(job)
    return res


def replay(obj):
    from harness import real
    site = obj.get('site', {})
    order = site.get('order')
    L = real.make_layout(site['sig'], None, None, order if isinstance(order, list) else None)
    res = core.Result('replay')
    check_laws(res, L, gen.rng_for(0, 'replay'), 'replay', reps=5, default_order=common.is_shortlex(L))
    for v in res.violations[:5]:
        print('still failing:', v['what'], v['site'])
    return 1 if res.violations else 0
