"""Seeded, structured generators (DESIGN Appendix D). All randomness derives from one numpy Generator."""
import itertools
from fractions import Fraction

import numpy as np


def rng_for(seed, *tags):
    import zlib
    s = [int(seed) & 0xFFFFFFFF] + [zlib.crc32(str(t).encode()) for t in tags]
    return np.random.default_rng(s)


def all_signatures(n, values=(1, -1, 0)):
    return [list(t) for t in itertools.product(values, repeat=n)]


def random_signature(rng, n, kind=None):
    kind = kind or rng.choice(['mixed', 'degenerate', 'neg', 'pos', 'nondeg'])
    if kind == 'pos':
        return [1] * n
    if kind == 'neg':
        return [-1] * n
    if kind == 'nondeg':
        return [int(x) for x in rng.choice([1, -1], size=n)]
    if kind == 'degenerate':
        s = [int(x) for x in rng.choice([1, -1, 0], size=n)]
        if n:
            s[int(rng.integers(n))] = 0
        return s
    return [int(x) for x in rng.choice([1, -1, 0], size=n, p=[0.45, 0.35, 0.2])]


def shortlex(n):
    out = []
    for r in range(n + 1):
        for t in itertools.combinations(range(n), r):
            out.append(sum(1 << i for i in t))
    return out


def random_order(rng, n, kind=None):
    """a storage order: list of all 2^n bitmaps"""
    base = shortlex(n)
    kind = kind or rng.choice(['shortlex', 'perm', 'scalar_not_first', 'grade_reversed', 'bitmap'])
    if kind == 'shortlex':
        return None
    if kind == 'perm':
        p = list(base)
        rng.shuffle(p)
        return [int(x) for x in p]
    if kind == 'scalar_not_first':
        p = list(base)
        if len(p) > 1:
            j = int(rng.integers(1, len(p)))
            p[0], p[j] = p[j], p[0]
        return p
    if kind == 'grade_reversed':
        return list(reversed(base))
    return list(range(2 ** n))


def random_ids(rng, n, kind=None):
    kind = kind or rng.choice(['default', 'first0', 'firstk', 'shuffled', 'strings', 'noncontig'])
    if kind == 'default':
        return None, 1
    if kind == 'first0':
        return None, 0
    if kind == 'firstk':
        return None, int(rng.integers(2, 7))
    if kind == 'shuffled':
        p = list(range(1, n + 1))
        rng.shuffle(p)
        return [int(x) for x in p], None
    if kind == 'strings':
        pool = ['x', 'y', 'z', 'w', 'u', 'v', 't', 's', 'a', 'b']
        return pool[:n], None
    vals = sorted(int(x) for x in rng.choice(np.arange(1, 40), size=n, replace=False))
    if rng.random() < 0.5:
        rng.shuffle(vals)
    return [int(v) for v in vals], None


def int_mv(rng, dims, kind=None, lo=-4, hi=4, grades=None):
    """integer coefficient vector of length dims"""
    kind = kind or rng.choice(['dense', 'sparse1', 'sparse2', 'sparse3', 'half', 'zero', 'big'],
                              p=[0.35, 0.15, 0.15, 0.1, 0.15, 0.03, 0.07])
    v = np.zeros(dims, dtype=np.int64)
    if kind == 'dense':
        v = rng.integers(lo, hi + 1, size=dims)
    elif kind.startswith('sparse'):
        k = int(kind[-1])
        idx = rng.choice(dims, size=min(k, dims), replace=False)
        v[idx] = rng.integers(1, hi + 1, size=len(idx)) * rng.choice([1, -1], size=len(idx))
    elif kind == 'half':
        v = rng.integers(lo, hi + 1, size=dims) * (rng.random(dims) < 0.5)
    elif kind == 'big':
        v = rng.integers(-2 ** 20, 2 ** 20, size=dims)
    if grades is not None:
        v = v * np.array([1 if g else 0 for g in grades])
    return [int(x) for x in v]


def dyadic_mv(rng, dims, kind=None):
    """dyadic rationals m * 2^-e as Fractions, exactly representable and small enough that products stay exact"""
    if kind is None:
        # never the 2^20-sized family: with up to 7 fractional bits, sums of products would not be exact in binary64
        kind = str(rng.choice(['dense', 'sparse1', 'sparse2', 'sparse3', 'half', 'zero'], p=[0.4, 0.15, 0.15, 0.1, 0.17, 0.03]))
    iv = int_mv(rng, dims, kind, lo=-64, hi=64)
    e = rng.integers(0, 8, size=dims)
    return [Fraction(int(a), 2 ** int(b)) for a, b in zip(iv, e)]


def nontrivial_mv(v):
    nz = [i for i, x in enumerate(v) if x != 0]
    return len(nz) >= 1 and nz != [0]
