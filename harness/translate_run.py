"""Tie A: regenerate lean/Generated/*.lean from /repo's current working tree."""
import json
import subprocess
import sys
from . import core


def regenerate():
    script = core.VERIF / 'translate' / 'py2lean.py'
    if not script.exists():
        return {}
    p = subprocess.run([sys.executable, str(script), '--repo', str(core.REPO), '--out', str(core.LEAN / 'Generated'),
                        '--status', '-'], capture_output=True, text=True, timeout=300)
    if p.returncode != 0:
        raise RuntimeError('translator crashed: ' + p.stderr[-2000:])
    return json.loads(p.stdout)
