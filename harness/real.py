"""Helpers around the real clifford library (imported in worker processes only)."""
from fractions import Fraction

import numpy as np
import clifford as cf
from clifford import Layout, BasisVectorIds, BasisBladeOrder, MultiVector

from . import core


def make_layout(sig, ids=None, first=None, order=None, names=None):
    """Layout from generator output. ids: explicit list or None; first: firstIdx for ordered integers"""
    n = len(sig)
    if ids is not None:
        idobj = BasisVectorIds(list(ids))
    elif first is not None:
        idobj = BasisVectorIds.ordered_integers(n, first_index=first)
    else:
        idobj = None
    ordobj = BasisBladeOrder(list(order)) if order is not None else None
    return Layout(list(sig), ids=idobj, order=ordobj, names=names)


def table_text(coo):
    """canonical text of a sparse.COO rank-3 table: non-zero entries sorted by (k,l,m)"""
    coords = np.asarray(coo.coords)
    data = np.asarray(coo.data)
    items = {}
    for (k, l, m), v in zip(coords.T.tolist(), data.tolist()):
        items[(int(k), int(l), int(m))] = items.get((int(k), int(l), int(m)), 0) + int(v)
    ent = sorted((k, v) for k, v in items.items() if v != 0)
    return len(ent), ";".join(f"{k},{l},{m},{v}" for (k, l, m), v in ent)


def layout_line(name, layout):
    sig = core.ints(layout.sig.tolist())
    order = core.ints(layout._basis_blade_order.index_to_bitmap.tolist())
    return f"LAYOUT {name} {sig} {order}"


def exact(vals):
    """exact Fractions of a real-valued array"""
    return [core.frac(v) for v in np.asarray(vals).tolist()]


def dense_table(coo):
    return np.asarray(coo.todense()).astype(object)


def mv_from(layout, vals, dtype=None):
    """MultiVector with exactly these (Fraction/int) coefficients in the given dtype"""
    if dtype is None or dtype == 'int':
        return MultiVector(layout, np.array([int(v) for v in vals], dtype=np.int64))
    if dtype == 'float':
        return MultiVector(layout, np.array([float(Fraction(v)) for v in vals], dtype=np.float64))
    if dtype == 'object':
        return MultiVector(layout, np.array([Fraction(v) for v in vals], dtype=object))
    raise ValueError(dtype)


PREDEFINED = {
    # module name -> (attribute holding the layout, documented signature)
    'g2': ('layout', [1, 1]),
    'g3': ('layout', [1, 1, 1]),
    'g4': ('layout', [1, 1, 1, 1]),
    'g3_1': ('layout', [1, 1, 1, -1]),
    'g2c': ('layout', [1, 1, 1, -1]),
    'g3c': ('layout', [1, 1, 1, 1, -1]),
    'pga': ('layout', [0, 1, 1, 1]),
    'pga2d': ('layout', [0, 1, 1]),
    'sta:D': ('D', [1, -1, -1, -1]),
    'sta:P': ('P', [1, 1, 1]),
    'gac': ('layout', [1, 1, 1, 1, 1, -1, -1, -1]),
    'dpga': ('layout', [1, 1, 1, 1, -1, -1, -1, -1]),
    'dg3c': ('layout', [1, 1, 1, 1, -1, 1, 1, 1, 1, -1]),
}


def predefined(name):
    import importlib
    modname, attr = (name.split(':') + ['layout'])[:2] if ':' in name else (name, PREDEFINED[name][0])
    if ':' in name:
        attr = name.split(':')[1]
    mod = importlib.import_module('clifford.' + modname)
    return getattr(mod, attr)
