"""Shared pieces of the per-property workers (imported inside worker processes: the real library is available)."""
import numpy as np

from . import core, gen, real


def layout_cases(tier, seed, prop, ex_quick=3, ex_thorough=5, rnd_quick=None, rnd_thorough=None,
                 custom_quick=20, custom_thorough=100, custom_orders=True):
    """signatures exhaustive for small n, random above, plus custom ids/orders"""
    rng = gen.rng_for(seed, prop, 'layouts')
    cases = []
    nmax_ex = ex_quick if tier == 'quick' else ex_thorough
    for n in range(0, nmax_ex + 1):
        for s in gen.all_signatures(n):
            cases.append(dict(sig=s, ids=None, first=None, order=None))
    rnd = (rnd_quick if rnd_quick is not None else {4: 8, 5: 4, 6: 2}) if tier == 'quick' else \
          (rnd_thorough if rnd_thorough is not None else {6: 30, 7: 10, 8: 3})
    for n, cnt in rnd.items():
        for _ in range(cnt):
            cases.append(dict(sig=gen.random_signature(rng, n), ids=None, first=None, order=None))
    if custom_orders:
        for _ in range(custom_quick if tier == 'quick' else custom_thorough):
            n = int(rng.integers(1, 5))
            ids, first = gen.random_ids(rng, n)
            cases.append(dict(sig=gen.random_signature(rng, n), ids=ids, first=first, order=gen.random_order(rng, n)))
    return cases


def build_layouts(res, cases, prefix='L'):
    out = []
    for i, c in enumerate(cases):
        try:
            L = real.make_layout(c['sig'], c.get('ids'), c.get('first'), c.get('order'))
        except Exception as e:
            res.violate('library rejects a well-formed layout', c, repr(e), 'a Layout', dict(sig=c['sig']))
            continue
        out.append((f"{prefix}{i}", L))
        res.count('sig_degenerate' if 0 in c['sig'] else 'sig_nondegenerate')
        res.count('order_custom' if c.get('order') is not None else 'order_shortlex')
    return out


def site_of(L):
    return dict(sig=[int(x) for x in L.sig],
                order=L._basis_blade_order.index_to_bitmap.tolist() if L.gaDims <= 32 else 'large')


def grades_of(L):
    return [int(g) for g in L._basis_blade_order.grades]


def is_shortlex(L):
    return L._basis_blade_order.index_to_bitmap.tolist() == gen.shortlex(L.dims)


def mv(L, vals, dtype=np.int64):
    from clifford import MultiVector
    return MultiVector(L, np.array(vals, dtype=dtype))


def hom_mv(rng, L, g, lo=-4, hi=4, dtype=np.int64):
    """random homogeneous integer multivector of grade g (non-zero when the grade exists)"""
    gr = np.array(grades_of(L))
    v = np.zeros(L.gaDims, dtype=np.int64)
    idx = np.nonzero(gr == g)[0]
    if len(idx):
        v[idx] = rng.integers(lo, hi + 1, size=len(idx))
        if not v.any():
            v[idx[0]] = 1
    return mv(L, v, dtype)


def gpart(L, M, g):
    """grade-g part computed from the order's grade array (independent of MultiVector.__call__)"""
    gr = np.array(grades_of(L))
    return mv(L, np.where(gr == g, M.value, 0), M.value.dtype)


def eq(a, b):
    return np.array_equal(np.asarray(a.value), np.asarray(b.value))


def exact_list(arr):
    return [core.frac(x) for x in np.asarray(arr).tolist()]


class OpBatch:
    """collects driver requests with the value observed on the real implementation, compares exactly"""
    def __init__(self):
        self.lines = []
        self.meta = []
        self.declared = set()

    def layout(self, tag, L):
        if tag not in self.declared:
            self.lines.append(real.layout_line(tag, L))
            self.meta.append(('layout', tag, None, None))
            self.declared.add(tag)

    def op(self, tag, L, opname, args, observed, key=None, nontrivial=True, info=None):
        """args: list of strings already in protocol form; observed: array-like (exact) or string"""
        self.layout(tag, L)
        self.lines.append(f"OP {tag} {opname} " + " ".join(args))
        self.meta.append(('op', tag, L, dict(op=opname, args=args, observed=observed, key=key, nontrivial=nontrivial, info=info)))

    def raw(self, line, observed, what, key=None, nontrivial=True, site=None):
        self.lines.append(line)
        self.meta.append(('raw', None, None, dict(observed=observed, what=what, key=key, nontrivial=nontrivial, site=site or {})))

    def run(self, res, label):
        if not self.lines:
            return
        out = core.drv_batch(self.lines)
        for line, (kind, tag, L, m), rep in zip(self.lines, self.meta, out):
            if kind == 'layout':
                if rep != 'ok':
                    res.disagree('model rejects a layout the library accepts', line, 'accepted', rep, {})
                continue
            if kind == 'raw':
                res.case(m['key'] or line, nontrivial=m['nontrivial'])
                if rep != m['observed']:
                    res.disagree(m['what'], line, m['observed'], rep, m['site'])
                continue
            obs = m['observed']
            if isinstance(obs, str):
                obs_s = obs
            else:
                arr_ = np.asarray(obs)
                if arr_.dtype.kind in 'fc' and not np.all(np.isfinite(arr_)):
                    # NaN / inf on the implementation where the exact model has a value: a disagreement with this request as the
                    # witness, not a crash of the check
                    obs_s = 'non-finite:' + ",".join(repr(x) for x in arr_.ravel().tolist()[:16])
                else:
                    obs_s = core.mvstr(exact_list(obs))
            res.case(m['key'] or line, nontrivial=m['nontrivial'],
                     sample=dict(request=line[:300], observed=obs_s[:200]))
            res.count(f"{label}:{m['op']}")
            if rep != obs_s:
                res.disagree(f"{label}: `{m['op']}` on the implementation differs from the model", dict(request=line, info=m['info']),
                             obs_s, rep, dict(site_of(L), op=m['op']))


class guard:
    """context manager: an exception escaping from the implementation while evaluating a well-formed case is a
    violation with that case as the replay (not a crash of the check)"""
    def __init__(self, res, label, site=None, inp=None):
        self.res, self.label, self.site, self.inp = res, label, site or {}, inp

    def __enter__(self):
        return self

    def __exit__(self, et, ev, tb):
        if et is None or not issubclass(et, Exception):
            return False
        if issubclass(et, core.DriverError):
            return False
        import traceback
        where = traceback.extract_tb(tb)[-1]
        if issubclass(et, (NameError, ImportError, SyntaxError)) and '/harness/' in where.filename:
            return False        # a mistake in this harness, not behaviour of the library: crash (CHECK-BROKEN), never a VIOLATION
        self.res.violate(f'the library raises {et.__name__} while evaluating {self.label}', self.inp if self.inp is not None else dict(self.site),
                         f'{et.__name__}: {ev}'[:300], 'a value', dict(self.site, op='raises:' + self.label, error=et.__name__,
                                                                     at=f'{where.filename.split("/")[-1]}:{where.name}'))
        return True


def gcall(res, fn, *args, **kw):
    """call a per-layout check under `guard`; the layout (if any) among the arguments gives the replay site"""
    site = {}
    for a in args:
        if hasattr(a, 'gaDims') and hasattr(a, 'sig'):
            site = site_of(a)
            break
    with guard(res, fn.__name__, site):
        fn(res, *args, **kw)
