"""Shared machinery of the clifford verification harness.

Runs under /venv/bin/python (the interpreter that has the repository installed).
Nothing here imports clifford: importing the real code is left to the worker
processes, which must set NUMBA_* variables before the import.
"""
import json
import os
import subprocess
import sys
import time
import hashlib
import tempfile
import shutil
from fractions import Fraction
from pathlib import Path

VERIF = Path(__file__).resolve().parent.parent
LEAN = VERIF / 'lean'
DRV = LEAN / '.lake' / 'build' / 'bin' / 'cliffdrv'
REPO = Path(os.environ.get('VERIF_REPO', '/repo'))
EVIDENCE = Path(os.environ['VERIF_EVIDENCE_DIR']) if os.environ.get('VERIF_EVIDENCE_DIR') else VERIF / 'evidence'
REPLAYS = (Path(os.environ['VERIF_EVIDENCE_DIR']) / 'replays') if os.environ.get('VERIF_EVIDENCE_DIR') else VERIF / 'replays'
PY = '/venv/bin/python'

ALLOWED_AXIOMS = {'propext', 'Classical.choice', 'Quot.sound'}
FORBIDDEN_TOKENS = ['sorry', 'admit', 'native_decide', 'bv_decide', 'implemented_by', 'unsafe ', 'maxHeartbeats 0']

TRUSTED_BASE = [
    "Lean 4.33 kernel (leanchecker re-check in the thorough tier)",
    "axioms: propext, Classical.choice, Quot.sound only (audited per theorem with #print axioms); no native_decide/bv_decide",
    "hand-written executable model in /verif/lean/Model tied to /repo by the correspondence check (sampled inputs)",
    "correspondence harness /verif/harness and its generators",
    "translators /verif/translate/*.py (Python ast -> Lean terms; the fragment each accepts is stated in its docstring; a refusal is a broken tie): "
    "theorems named TieA.* are about definitions regenerated from the current source on this run",
    "modelled, not verified: CPython, numpy, numba, sparse.COO, h5py/json, libm, binary64 rounding",
]


# --------------------------------------------------------------------------- exact text forms

def frac(x) -> Fraction:
    """exact rational value of a python/numpy real number"""
    import numbers
    if isinstance(x, Fraction):
        return x
    if isinstance(x, (bool,)):
        return Fraction(int(x))
    if isinstance(x, numbers.Integral):
        return Fraction(int(x))
    return Fraction(float(x))


def fstr(q) -> str:
    q = frac(q)
    return str(q.numerator) if q.denominator == 1 else f"{q.numerator}/{q.denominator}"


def mvstr(vals) -> str:
    return ",".join(fstr(v) for v in vals)


def parse_mv(s: str):
    if s == '':
        return []
    return [Fraction(t) for t in s.split(',')]


def ints(xs) -> str:
    xs = list(xs)
    return ",".join(str(int(x)) for x in xs) if xs else "-"


def fnv64(s: str) -> int:
    h = 14695981039346656037
    for b in s.encode():
        h = ((h ^ b) * 1099511628211) & 0xFFFFFFFFFFFFFFFF
    return h


# --------------------------------------------------------------------------- driver

class DriverError(Exception):
    pass


def drv_batch(lines, timeout=600):
    """send request lines to cliffdrv, return one reply per line"""
    if not DRV.exists():
        raise DriverError(f"driver not built: {DRV}")
    inp = "\n".join(lines) + "\n"
    p = subprocess.run([str(DRV)], input=inp, capture_output=True, text=True, timeout=timeout)
    if p.returncode != 0:
        raise DriverError(f"cliffdrv exit {p.returncode}: {p.stderr[:500]}")
    out = p.stdout.split("\n")
    if out and out[-1] == '':
        out.pop()
    if len(out) != len(lines):
        raise DriverError(f"cliffdrv returned {len(out)} replies for {len(lines)} requests")
    return out


# --------------------------------------------------------------------------- lean build / audit

def run(cmd, cwd=None, timeout=None, env=None):
    t0 = time.time()
    p = subprocess.run(cmd, cwd=cwd, capture_output=True, text=True, timeout=timeout, env=env)
    return p.returncode, p.stdout + p.stderr, time.time() - t0


def lake_build(targets, timeout=3000):
    rc, out, dt = run(['lake', 'build'] + list(targets), cwd=LEAN, timeout=timeout)
    return rc == 0, out, dt


def strip_comments(src: str) -> str:
    """remove Lean block and line comments (good enough for the forbidden-token grep)"""
    out = []
    i = 0
    depth = 0
    n = len(src)
    while i < n:
        if src.startswith('/-', i):
            depth += 1
            i += 2
        elif depth and src.startswith('-/', i):
            depth -= 1
            i += 2
        elif depth:
            i += 1
        elif src.startswith('--', i):
            j = src.find('\n', i)
            i = n if j < 0 else j
        else:
            out.append(src[i])
            i += 1
    return ''.join(out)


def forbidden_token_hits():
    hits = []
    for sub in ('Model', 'Proofs', 'Props', 'Generated', 'Audit', 'Driver'):
        for f in sorted((LEAN / sub).rglob('*.lean')):
            txt = strip_comments(f.read_text())
            # string literals may legitimately contain words; drop them
            import re
            txt = re.sub(r'"(?:[^"\\]|\\.)*"', '""', txt)
            for tok in FORBIDDEN_TOKENS:
                if tok in txt:
                    hits.append(f"{f.relative_to(LEAN)}: {tok.strip()}")
            if re.search(r'^\s*axiom\s', txt, flags=re.M):
                hits.append(f"{f.relative_to(LEAN)}: axiom")
    return hits


def audit_axioms(names, imports):
    """#print axioms for every theorem name; returns {name: [axioms]} or {name: None} if unknown/failed"""
    src = "\n".join(f"import {m}" for m in imports) + "\n" + "\n".join(f"#print axioms {n}" for n in names) + "\n"
    d = LEAN / '.lake' / 'audit'
    d.mkdir(parents=True, exist_ok=True)
    f = d / f"audit_{abs(hash(tuple(names))) % 10**9}_{os.getpid()}.lean"
    f.write_text(src)
    try:
        rc, out, dt = run(['lake', 'env', 'lean', str(f)], cwd=LEAN, timeout=1800)
    finally:
        try:
            f.unlink()
        except OSError:
            pass
    res = {n: None for n in names}
    import re
    # messages: "'name' depends on axioms: [a, b]" or "'name' does not depend on any axioms"
    for m in re.finditer(r"'([^']+)' depends on axioms: \[([^\]]*)\]", out):
        res[m.group(1)] = [a.strip() for a in m.group(2).replace('\n', ' ').split(',') if a.strip()]
    for m in re.finditer(r"'([^']+)' does not depend on any axioms", out):
        res[m.group(1)] = []
    return res, out


# --------------------------------------------------------------------------- known findings

def load_known_findings():
    p = VERIF / 'known_findings.json'
    if not p.exists():
        return []
    return json.loads(p.read_text()).get('entries', [])


def match_known(prop, viol):
    """a violation matches a finding entry when every key of entry['match'] equals (or is contained in) the violation's 'site' record"""
    site = viol.get('site', {})
    for e in load_known_findings():
        if e.get('property') != prop or e.get('status') != 'finding':
            continue
        m = e.get('match', {})
        ok = True
        for k, v in m.items():
            sv = site.get(k)
            if isinstance(v, list):
                if sv not in v:
                    ok = False
            elif sv != v:
                ok = False
        if ok and m:
            return e
    return None


# --------------------------------------------------------------------------- worker environment

def worker_env(jit: bool, cache_dir: str):
    env = dict(os.environ)
    env['NUMBA_CACHE_DIR'] = cache_dir
    env['PYTHONDONTWRITEBYTECODE'] = '1'
    # the venv's install is editable (imports /repo); a VERIF_REPO override (used only to try seeded changes in a
    # scratch worktree without touching /repo) is put in front so that `import clifford` resolves there
    env['PYTHONPATH'] = os.pathsep.join([str(REPO), str(VERIF)] + ([env['PYTHONPATH']] if env.get('PYTHONPATH') else []))
    env['VERIF_REPO'] = str(REPO)
    env['CLIFFORD_VERIF'] = '1'
    if jit:
        env.pop('NUMBA_DISABLE_JIT', None)
    else:
        env['NUMBA_DISABLE_JIT'] = '1'
    env.setdefault('NUMBA_NUM_THREADS', '2')
    return env


class Result:
    """what one worker job reports"""
    def __init__(self, job):
        self.job = job
        self.evaluations = 0
        self.nontrivial = set()
        self.disagreements = []   # correspondence: model vs implementation differ
        self.violations = []      # property predicate false on the real code, concrete input
        self.samples = []
        self.dist = {}
        self.notes = []

    def count(self, key, n=1):
        self.dist[key] = self.dist.get(key, 0) + n

    def case(self, key, nontrivial=True, sample=None):
        """register one evaluated case; key = canonical text of the case"""
        self.evaluations += 1
        if nontrivial:
            self.nontrivial.add(hashlib.blake2b(repr(key).encode(), digest_size=8).hexdigest())
        if sample is not None and len(self.samples) < 4:
            self.samples.append(sample)

    def disagree(self, what, inp, observed, expected, site=None):
        if len(self.disagreements) < 50:
            self.disagreements.append(dict(kind='correspondence', what=what, input=inp, observed=observed,
                                           expected=expected, site=site or {}, job=self.job))
        self.count('disagreements')

    def violate(self, what, inp, observed, expected, site=None):
        if len(self.violations) < 50:
            self.violations.append(dict(kind='predicate', what=what, input=inp, observed=observed,
                                        expected=expected, site=site or {}, job=self.job))
        self.count('violations')

    def to_json(self):
        return dict(job=self.job, evaluations=self.evaluations, nontrivial=sorted(self.nontrivial),
                    disagreements=self.disagreements, violations=self.violations, samples=self.samples,
                    dist=self.dist, notes=self.notes)


def jsonable(x):
    import numbers
    if isinstance(x, Fraction):
        return fstr(x)
    if isinstance(x, dict):
        return {str(k): jsonable(v) for k, v in x.items()}
    if isinstance(x, (list, tuple, set)):
        return [jsonable(v) for v in x]
    if isinstance(x, (str, bool)) or x is None:
        return x
    if isinstance(x, numbers.Integral):
        return int(x)
    if isinstance(x, numbers.Real):
        return float(x)
    if isinstance(x, numbers.Complex):
        return [float(x.real), float(x.imag)]
    try:
        import numpy as np
        if isinstance(x, np.ndarray):
            return jsonable(x.tolist())
    except Exception:
        pass
    return repr(x)


def local_import_closure(root_modules):
    """modules of this lake project (Props/Proofs/Model) reachable from the given ones through `import` lines"""
    import re
    seen, todo = [], list(root_modules)
    while todo:
        m = todo.pop()
        if m in seen:
            continue
        f = LEAN / (m.replace('.', '/') + '.lean')
        if not f.exists():
            continue
        seen.append(m)
        for imp in re.findall(r'^import\s+(\S+)', f.read_text(), flags=re.M):
            if imp.split('.')[0] in ('Props', 'Proofs', 'Model'):
                todo.append(imp)
    return sorted(seen)


def leanchecker(modules, timeout=3000):
    """independent re-check of the compiled .olean files of these modules. It needs 10-25 GB for the Mathlib-importing closures, so
    concurrent runs are serialised by a file lock, and a run killed by a signal (the kernel's OOM killer) is retried once; the third
    component of the result is 'killed' when it never completed (infrastructure, says nothing about the modules)."""
    import fcntl
    lock = LEAN / '.lake' / 'leanchecker.lock'
    lock.parent.mkdir(parents=True, exist_ok=True)
    t0 = time.time()
    with open(lock, 'w') as lf:
        fcntl.flock(lf, fcntl.LOCK_EX)
        try:
            for attempt in range(2):
                rc, out, _ = run(['lake', 'env', 'leanchecker'] + list(modules), cwd=LEAN, timeout=timeout)
                killed = rc < 0 or rc in (137, 143) or (rc != 0 and not out.strip())
                if not killed:
                    break
                time.sleep(20)
        finally:
            fcntl.flock(lf, fcntl.LOCK_UN)
    if killed:
        return False, 'killed (signal / out of memory): ' + out[-300:], time.time() - t0
    return rc == 0, out[-2000:], time.time() - t0


MV_THEOREMS = {'conf_consts_eq', 'conf_up_eq', 'conf_homo_eq', 'conf_down_eq', 'g3c_translation_rotor_eq', 'g3c_dilation_rotor_eq',
               'g3c_apply_rotor_eq', 'g3c_rotor_between_planes_eq', 'cga_call_eq', 'cga_translation_eq', 'cga_round_eq',
               'classify_translate_eq', 'classify_blade_mv_eq', 'classify_tests_eq',
               'g3c_point_pair_end_points_eq', 'g3c_sphere_center_eq', 'cga_dilation_eq', 'g3c_rotor_roots_eq', 'g3c_fast_eq', 'g3c_rot_radius_eq'}


LOOP_THEOREMS = {'cre_eq', 'crs_eq', 'gmt_element_eq', 'construct_gmt_eq', 'construct_graded_mt_eq', 'tuple_as_sign_and_bitmap_eq'}


CLOSED_THEOREMS = {'hitzer_tail_ok', 'hitzer_num1_eq', 'hitzer_num2_eq', 'hitzer_num3_eq', 'hitzer_num4_eq', 'hitzer_num5_eq', 'shirokov_loop_eq'}


METH_THEOREMS = {'meth_conjugate_eq', 'meth_even_eq', 'meth_odd_eq', 'meth_mag2_eq', 'meth_commutator_eq', 'meth_anticommutator_eq',
                 'meth_pick_inv_eq', 'meth_project_eq', 'meth_dual_eq', 'meth_pow_eq', 'meth_operators_eq'}


def _tie_a_one(script):
    import re
    p = subprocess.run([sys.executable if sys.executable else 'python3', str(script), '--repo', str(REPO), '--status'],
                       capture_output=True, text=True, timeout=300)
    if p.returncode != 0:
        return {}, dict(error=p.stderr[-500:]), p.stderr[-500:]
    st = json.loads(p.stderr)
    d = LEAN / '.lake' / 'audit'
    d.mkdir(parents=True, exist_ok=True)
    f = d / f"tiea_{script.stem}_{os.getpid()}.lean"
    f.write_text(p.stdout)
    try:
        rc, out, dt = run(['lake', 'env', 'lean', str(f)], cwd=LEAN, timeout=900)
    finally:
        try:
            f.unlink()
        except OSError:
            pass
    res = {t: None for t in st['theorems'].values()}
    for m in re.finditer(r"'([^']+)' depends on axioms: \[([^\]]*)\]", out):
        res[m.group(1)] = [a.strip() for a in m.group(2).replace('\n', ' ').split(',') if a.strip()]
    for m in re.finditer(r"'([^']+)' does not depend on any axioms", out):
        res[m.group(1)] = []
    # any error message inside a generated declaration un-discharges it (Lean recovers from some errors and still
    # reports axioms): an error inside a theorem fails that theorem, an error inside a definition fails every theorem
    starts = []
    for ln, line in enumerate(p.stdout.splitlines(), 1):
        mm = re.match(r"(?:noncomputable )?(theorem|def)\s+(\S+)", line)
        if mm:
            starts.append((ln, mm.group(1), mm.group(2)))
    for m in re.finditer(r":(\d+):\d+: error", out):
        el = int(m.group(1))
        owner = [x for x in starts if x[0] <= el]
        if owner and owner[-1][1] == 'theorem' and owner[-1][2] in res:
            res[owner[-1][2]] = None
        elif owner and owner[-1][1] == 'theorem' and any(t.split('_')[0] == owner[-1][2].split('_')[0] for t in res):
            # a helper lemma of one slice (e.g. `dg3c_hP`): the theorems of that slice fail
            for t in res:
                if t.split('_')[0] == owner[-1][2].split('_')[0]:
                    res[t] = None
        else:
            for t in res:
                res[t] = None
    return res, st, out[-1500:]


KERN_THEOREMS = {'kernel_dense_eq', 'kernel_sparse_eq', 'kernel_dispatch_eq', 'kernel_leftmat_eq', 'kernel_rightmat_eq', 'kernel_lainv_eq'}

LAY_THEOREMS = {'lay_complement_eq', 'lay_vee_eq', 'lay_dual_eq', 'lay_involutions_eq'}

NUMBA_THEOREMS = {'nb_add_eq', 'nb_sub_eq', 'nb_mul_eq', 'nb_xor_eq', 'nb_or_eq', 'nb_invert_eq', 'nb_neg_eq', 'nb_pos_eq', 'nb_pow_eq', 'nb_call_eq', 'nb_reuse_eq'}

SERIES_THEOREMS = {'series_sin_eq', 'series_sinh_eq', 'series_cos_eq', 'series_cosh_eq', 'series_exp_eq'}

PARSER_THEOREMS = {'parser_step_eq', 'parser_lexicon_eq', 'parser_line_offset_eq'}

PRINTER_THEOREMS = {'printer_str_eq'}

IO_THEOREMS = {'io_files_eq'}

MISC_THEOREMS = {'misc_mvarray_folds_eq', 'misc_blademap_eq', 'misc_frame_eq'}

QUAT_THEOREMS = {'quat_q2m_eq', 'quat_m2q_eq', 'quat_rotor_eq'}

VALEXP_THEOREMS = {'val_exp_eq'}

SHIP_THEOREMS = {'gac_down_up', 'gac_down_up_model', 'dpga_down_up', 'dpga_down_up_model', 'dg3c_down_up', 'dg3c_down_up_model'}

TRANSLATORS = [   # (script, theorems it generates (None = everything else), modules its output imports)
    ('py2lean.py', None, ['Model', 'Proofs.Rev', 'Proofs.Invol']),
    ('mv2lean.py', MV_THEOREMS, ['Proofs.Conf2', 'Proofs.CgaObj', 'Proofs.Classify']),
    ('loops2lean.py', LOOP_THEOREMS, ['Model']),
    ('closed2lean.py', CLOSED_THEOREMS, ['Proofs.Hitzer', 'Proofs.Hitzer4', 'Proofs.Hitzer5', 'Proofs.Shirokov']),
    ('methods2lean.py', METH_THEOREMS, ['Proofs.Invol', 'Proofs.Graded', 'Proofs.Blade', 'Proofs.InvProps', 'Model.Dispatch']),
    ('kernels2lean.py', KERN_THEOREMS, ['Model']),
    ('layout2lean.py', LAY_THEOREMS, ['Model']),
    ('numba2lean.py', NUMBA_THEOREMS, ['Model', 'Proofs.NumbaEq']),
    ('series2lean.py', SERIES_THEOREMS, ['Model']),
    ('parser2lean.py', PARSER_THEOREMS, ['Model']),
    ('printer2lean.py', PRINTER_THEOREMS, ['Model']),
    ('io2lean.py', IO_THEOREMS, ['Model']),
    ('misc2lean.py', MISC_THEOREMS, ['Model', 'Proofs.BladeMapP', 'Proofs.Recip']),
    ('shipped2lean.py', SHIP_THEOREMS, ['Proofs.Shipped']),
    ('quat2lean.py', QUAT_THEOREMS, ['Proofs.Quat']),
    ('valexp2lean.py', VALEXP_THEOREMS, ['Proofs.GaExp']),
]


def tie_a(names=None):
    """Tie A: translate code of the *current* source to Lean and check the generated equivalence theorems (one translator per
    slice of the code, see DESIGN §2). Returns ({theorem: axioms | None}, translator status, log tail)."""
    names = set(names or [])
    known = set().union(*[t for _, t, _ in TRANSLATORS if t])
    scripts = []
    for script, thms, mods in TRANSLATORS:
        if not names or (thms is None and names - known) or (thms is not None and names & thms):
            scripts.append((VERIF / 'translate' / script, mods))
    res, st, log = {}, dict(status={}, theorems={}), ''
    for sc, mods in scripts:
        # what the generated file imports must be compiled first (no-op when it already is)
        lake_build(mods)
        r, s_, l = _tie_a_one(sc)
        res.update(r)
        if 'error' in s_:
            st.setdefault('error', '')
            st['error'] += s_['error']
        st['status'].update(s_.get('status', {}))
        st['theorems'].update(s_.get('theorems', {}))
        log += l
    return res, st, log[-3000:]
