#!/usr/bin/env python3
"""Tie A, thirteenth slice: the rotation conversions of clifford/tools/g3/__init__.py (C12).

Read from the CURRENT source (anything else is REFUSED):

  quaternion_to_matrix(q)            scalar arithmetic on q[0..3] (`+ - *`, `**2`, integer constants), nine temporaries and the returned
                                     3x3 `np.array([[..],[..],[..]])`           -> a Lean function `Fin 3 → Fin 3 → K` over any field
  rotation_matrix_to_quaternion(a)   the `if / elif / elif / else` chain on `trace` and the diagonal, `s`, `w`, `x`, `y`, `z` in each
                                     branch with `math.sqrt`, float constants as rationals, `return w, x, y, z`
                                                                                -> a Lean function over ℝ with `Real.sqrt`
  quaternion_to_rotor(quaternion)    `Q = layout.MultiVector(); Q.value[1:4] = quaternion[1:4]; Q = -e123*Q; Q.value[0] = quaternion[0]`
                                     (slots 1..3 are e1, e2, e3; the product has no scalar part, so setting slot 0 adds `w`)
  rotor_to_quaternion(R)             `Q = (e123*R).value[0:4]; Q[0] = R.value[0]`
  rotor_to_rotation_matrix / rotation_matrix_to_rotor   the two compositions

Generated theorems: the translated functions are `Quat.mat`, `Quat.m2q`, `Quat.toRotor` — the objects of `Props/C12.lean`'s
`quaternion_matrix_rows`, `matrix_quaternion_round_trip`, `rotor_acts_as_matrix`, `quaternion_rotor_norm`,
`rotor_quaternion_round_trip`.
"""
import ast
import json
import sys
from fractions import Fraction
from pathlib import Path


class Refuse(Exception):
    pass


def num(c):
    if isinstance(c, bool) or not isinstance(c, (int, float)):
        raise Refuse(f"constant {c!r}")
    f = Fraction(c).limit_denominator(10 ** 6)
    if float(f) != float(c):
        raise Refuse(f"constant {c!r} is not a small rational")
    return f"({f.numerator}/{f.denominator})" if f.denominator != 1 else f"{f.numerator}"


class Ar:
    """scalar arithmetic: names from env, subscripts of the parameter"""
    def __init__(self, env, sub, sqrt=None):
        self.env, self.sub, self.sqrt = dict(env), sub, sqrt

    def tr(self, e):
        if isinstance(e, ast.Constant):
            return num(e.value)
        if isinstance(e, ast.Name):
            if e.id in self.env:
                return self.env[e.id]
            raise Refuse(f"unbound name {e.id}")
        if isinstance(e, ast.Subscript):
            return self.sub(e)
        if isinstance(e, ast.UnaryOp) and isinstance(e.op, ast.USub):
            return f"(-{self.tr(e.operand)})"
        if isinstance(e, ast.Call) and ast.unparse(e.func) == 'math.sqrt' and len(e.args) == 1 and self.sqrt:
            return f"({self.sqrt} ({self.tr(e.args[0])}))"
        if isinstance(e, ast.BinOp):
            if isinstance(e.op, ast.Pow):
                if not (isinstance(e.right, ast.Constant) and e.right.value == 2):
                    raise Refuse("power other than 2")
                return f"({self.tr(e.left)}^2)"
            op = {ast.Add: '+', ast.Sub: '-', ast.Mult: '*', ast.Div: '/'}.get(type(e.op))
            if op is None:
                raise Refuse(f"operator {type(e.op).__name__}")
            return f"({self.tr(e.left)} {op} {self.tr(e.right)})"
        raise Refuse(f"expression {ast.unparse(e)}")


def body_of(tree, name):
    hits = [n for n in tree.body if isinstance(n, ast.FunctionDef) and n.name == name]
    if not hits:
        raise Refuse(f"{name} not found")
    f = hits[-1]
    return f, [s for s in f.body if not (isinstance(s, ast.Expr) and isinstance(s.value, ast.Constant))]


def gen_q2m(tree):
    f, b = body_of(tree, 'quaternion_to_matrix')
    if [a.arg for a in f.args.args] != ['q']:
        raise Refuse("parameters")

    def sub(e):
        if isinstance(e.value, ast.Name) and e.value.id == 'q' and isinstance(e.slice, ast.Constant) and e.slice.value in (0, 1, 2, 3):
            return f"q{e.slice.value}"
        raise Refuse(f"subscript {ast.unparse(e)}")
    ar = Ar({}, sub)
    for st in b[:-1]:
        if not (isinstance(st, ast.Assign) and len(st.targets) == 1 and isinstance(st.targets[0], ast.Name)):
            raise Refuse("statement " + ast.unparse(st)[:40])
        ar.env[st.targets[0].id] = ar.tr(st.value)
    r = b[-1]
    if not (isinstance(r, ast.Return) and isinstance(r.value, ast.Call) and ast.unparse(r.value.func) == 'np.array' and len(r.value.args) == 1
            and isinstance(r.value.args[0], ast.List) and len(r.value.args[0].elts) == 3
            and all(isinstance(row, ast.List) and len(row.elts) == 3 for row in r.value.args[0].elts)):
        raise Refuse("quaternion_to_matrix does not return a 3x3 np.array literal")
    cases = []
    for i, row in enumerate(r.value.args[0].elts):
        for j, el in enumerate(row.elts):
            cases.append(f"  | {i}, {j} => {ar.tr(el)}")
    return ("def q2m {K : Type} [Field K] (q0 q1 q2 q3 : K) : Fin 3 → Fin 3 → K := fun i j =>\n  match i, j with\n" + "\n".join(cases) + "\n")


def gen_m2q(tree):
    f, b = body_of(tree, 'rotation_matrix_to_quaternion')
    if [a.arg for a in f.args.args] != ['a']:
        raise Refuse("parameters")

    def sub(e):
        if isinstance(e.value, ast.Subscript) and isinstance(e.value.value, ast.Name) and e.value.value.id == 'a' \
                and isinstance(e.slice, ast.Constant) and isinstance(e.value.slice, ast.Constant) \
                and e.slice.value in (0, 1, 2) and e.value.slice.value in (0, 1, 2):
            return f"a {e.value.slice.value} {e.slice.value}"
        raise Refuse(f"subscript {ast.unparse(e)}")
    ar = Ar({}, sub, sqrt='Real.sqrt')
    if len(b) != 3 or not (isinstance(b[0], ast.Assign) and ast.unparse(b[0].targets[0]) == 'trace') or not isinstance(b[1], ast.If) \
            or ast.unparse(b[2]) != 'return (w, x, y, z)':
        raise Refuse("rotation_matrix_to_quaternion is not `trace = …; if …; return w, x, y, z`")
    ar.env['trace'] = ar.tr(b[0].value)

    def cond(t):
        if isinstance(t, ast.BoolOp) and isinstance(t.op, ast.And):
            return " ∧ ".join(cond(v) for v in t.values)
        if isinstance(t, ast.Compare) and len(t.ops) == 1 and isinstance(t.ops[0], ast.Gt):
            return f"{ar.tr(t.left)} > {ar.tr(t.comparators[0])}"
        raise Refuse(f"condition {ast.unparse(t)}")

    def branch(stmts):
        env = dict(ar.env)
        a2 = Ar(env, sub, sqrt='Real.sqrt')
        names = []
        for st in stmts:
            if not (isinstance(st, ast.Assign) and len(st.targets) == 1 and isinstance(st.targets[0], ast.Name)):
                raise Refuse("branch statement " + ast.unparse(st)[:40])
            a2.env[st.targets[0].id] = a2.tr(st.value)
            names.append(st.targets[0].id)
        if sorted(names) != ['s', 'w', 'x', 'y', 'z']:
            raise Refuse("a branch does not assign exactly s, w, x, y, z")
        return "(" + ", ".join(a2.env[k] for k in ('w', 'x', 'y', 'z')) + ")"
    node, out, depth = b[1], "", 0
    while True:
        out += f"if {cond(node.test)} then {branch(node.body)}\n  else "
        if len(node.orelse) == 1 and isinstance(node.orelse[0], ast.If):
            node = node.orelse[0]
            depth += 1
        else:
            out += branch(node.orelse) + "\n"
            break
    if depth != 2:
        raise Refuse("four branches expected")
    return "noncomputable def m2q (a : Fin 3 → Fin 3 → ℝ) : ℝ × ℝ × ℝ × ℝ :=\n  " + out


def gen_rotor(tree):
    f, b = body_of(tree, 'quaternion_to_rotor')
    if [ast.unparse(s) for s in b] != ['Q = layout.MultiVector()', 'Q.value[1:4] = quaternion[1:4]', 'Q = -e123 * Q', 'Q.value[0] = quaternion[0]', 'return Q']:
        raise Refuse("quaternion_to_rotor body")
    f, b = body_of(tree, 'rotor_to_quaternion')
    if [ast.unparse(s) for s in b] != ['Q = (e123 * R).value[0:4]', 'Q[0] = R.value[0]', 'return Q']:
        raise Refuse("rotor_to_quaternion body")
    f, b = body_of(tree, 'rotor_to_rotation_matrix')
    if [ast.unparse(s) for s in b] != ['q = rotor_to_quaternion(R)', 'return quaternion_to_matrix(q)']:
        raise Refuse("rotor_to_rotation_matrix body")
    f, b = body_of(tree, 'rotation_matrix_to_rotor')
    if [ast.unparse(s) for s in b] != ['Q = rotation_matrix_to_quaternion(M)', 'return quaternion_to_rotor(Q)']:
        raise Refuse("rotation_matrix_to_rotor body")
    i3 = [n for n in tree.body if isinstance(n, ast.Assign) and ast.unparse(n.targets[0]) == 'I3']
    if not i3 or ast.unparse(i3[-1].value) != 'e123':
        raise Refuse("I3 is not e123")
    return ("def q2r {A : Type} [Ring A] [Algebra ℚ A] (e : Fin 5 → A) (w x y z : ℚ) : A :=\n"
            "  w • (1 : A) + -((e 0 * e 1 * e 2) * (x • e 0 + y • e 1 + z • e 2))\n"
            "def r2q_reads {A : Type} [Ring A] [Algebra ℚ A] (e : Fin 5 → A) (R : A) : A := (e 0 * e 1 * e 2) * R\n")


def main():
    repo = Path(sys.argv[sys.argv.index('--repo') + 1]) if '--repo' in sys.argv else Path('/repo')
    out = ["import Proofs.Quat\n\n/-! GENERATED from the current source by translate/quat2lean.py — do not edit -/\n"
           "set_option linter.unusedVariables false\nset_option linter.unusedSimpArgs false\nnamespace GenQuat\n\n"]
    status, thms = {}, []
    tree = ast.parse((repo / 'clifford' / 'tools' / 'g3' / '__init__.py').read_text())
    plan = [
        ('quat_q2m', gen_q2m,
         "theorem quat_q2m_eq {K : Type} [Field K] (w x y z : K) (i j : Fin 3) : GenQuat.q2m w x y z i j = Quat.mat w x y z i j := by\n"
         "  fin_cases i <;> fin_cases j <;> (simp only [GenQuat.q2m, Quat.mat]; try ring)\n"),
        ('quat_m2q', gen_m2q,
         "theorem quat_m2q_eq (a : Fin 3 → Fin 3 → ℝ) : GenQuat.m2q a = Quat.m2q a := by\n"
         "  unfold GenQuat.m2q Quat.m2q Quat.br1 Quat.br2 Quat.br3 Quat.br4\n"
         "  split_ifs <;> (refine Prod.ext ?_ (Prod.ext ?_ (Prod.ext ?_ ?_)) <;> first | rfl | (ring_nf; done) | (norm_num; ring_nf; done))\n"),
        ('quat_rotor', gen_rotor,
         "theorem quat_rotor_eq {A : Type} [Ring A] [Algebra ℚ A] (e : Fin 5 → A) (w x y z : ℚ) (R : A) :\n"
         "    GenQuat.q2r e w x y z = Quat.toRotor e w x y z ∧ GenQuat.r2q_reads e R = Quat.I3 e * R := by\n"
         "  constructor <;> simp only [GenQuat.q2r, GenQuat.r2q_reads, Quat.toRotor, Quat.I3, Quat.vec3]\n"),
    ]
    for key, gen, th in plan:
        try:
            out.append(gen(tree) + "\n")
            thms.append((key, th))
            status[key] = dict(status='ok')
        except Refuse as r:
            status[key] = dict(status='refused', reason=str(r))
        except Exception as r:
            status[key] = dict(status='refused', reason=repr(r)[:200])
    out.append("end GenQuat\n\n")
    names = {}
    for name, t in thms:
        out.append(t + "\n")
    for name, t in thms:
        names[name] = t.split()[1]
        out.append(f"#print axioms {t.split()[1]}\n")
    if '--status' in sys.argv:
        sys.stderr.write(json.dumps(dict(status=status, theorems=names)))
    sys.stdout.write("".join(out))


if __name__ == '__main__':
    main()
