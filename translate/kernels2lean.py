#!/usr/bin/env python3
"""Tie A, sixth slice: the generated product kernels of clifford/__init__.py.

`_get_mult_function` and `_get_mult_function_runtime_sparse` build a jitted `mv_mult(value, other_value)` out of numpy
vector expressions over the table's coordinate arrays.  The translator recognises that idiom on the CURRENT source:

  k_list, l_list, m_list = mt.coords ; mult_table_vals = mt.data          (one table entry per position)
  [nz_mask = <per-entry boolean expression>]                               (optional)
  res = <product of per-entry factors>                                     (`value[k_list]`, `mult_table_vals`, `other_value[m_list]`,
                                                                            each optionally `[nz_mask]`-filtered, consistently)
  output = np.zeros(dims, dtype=res.dtype)
  for l, val in zip(l_list[…], res): output[l] += val
  return output

and prints it as a fold over the entry list: `(es.filter mask).foldl (fun out e => out.modify e.l (· + <factor product>)) zeros`.
Generated theorems: the two kernels are `Model.multDense` / `Model.multSparse` — which `Props/C03.lean` proves equal to the
table contraction for every entry list, and the storage bridge (C01/C02) to the canonical products.  Also translated: the
grade filter of `get_mult_function` (`gradeList[k_list[i]] in grades_a` and `… in grades_b`) = `Model.gradeFilter`, and its
dispatch (`both grade lists given → masked table + dense kernel, else runtime-sparse kernel`) = `Model.getMultFunction`.
Also: `_numba_val_get_left_mt_matrix` (the entry loop with its running index) = `Model.leftMat`, `val_get_right_mt_matrix`
(`mt.T`) = `Model.rightMat`, and the frame of `Layout.inv_func` — matrix `= left matrix of the geometric table`, right-hand side
`= 1 at bitmap_to_index[0]`, result `= np.linalg.solve(matrix, rhs)` — which is the system `C05.leftLaInv_solution_is_inverse` is about.
Anything else is REFUSED.
"""
import ast
import json
import sys
from pathlib import Path


class Refuse(Exception):
    pass


ENTRY = {'k_list': 'e.k', 'l_list': 'e.l', 'm_list': 'e.m'}


def find(tree, name):
    hits = [n for n in tree.body if isinstance(n, ast.FunctionDef) and n.name == name]
    if not hits:
        raise Refuse(f"function {name} not found")
    return hits[-1]


class K:
    """per-entry translation of numpy vector expressions indexed by table position"""
    def __init__(self, mask_name=None):
        self.mask = mask_name
        self.used_mask = []

    def idx(self, e):
        """an index array: k_list / m_list / l_list, optionally `[nz_mask]`"""
        if isinstance(e, ast.Name) and e.id in ENTRY:
            self.used_mask.append(False)
            return ENTRY[e.id]
        if isinstance(e, ast.Subscript) and isinstance(e.value, ast.Name) and e.value.id in ENTRY \
                and isinstance(e.slice, ast.Name) and e.slice.id == self.mask:
            self.used_mask.append(True)
            return ENTRY[e.value.id]
        raise Refuse(f"index array {ast.unparse(e)}")

    def factor(self, e):
        if isinstance(e, ast.Name) and e.id == 'mult_table_vals':
            self.used_mask.append(False)
            return "(e.v : R)"
        if isinstance(e, ast.Subscript) and isinstance(e.value, ast.Name) and e.value.id == 'mult_table_vals' \
                and isinstance(e.slice, ast.Name) and e.slice.id == self.mask:
            self.used_mask.append(True)
            return "(e.v : R)"
        if isinstance(e, ast.Subscript) and isinstance(e.value, ast.Name) and e.value.id in ('value', 'other_value'):
            arr = 'a' if e.value.id == 'value' else 'b'
            return f"{arr}.getD {self.idx(e.slice)} 0"
        if isinstance(e, ast.BinOp) and isinstance(e.op, ast.Mult):
            return f"{self.factor(e.left)} * {self.factor(e.right)}"
        raise Refuse(f"factor {ast.unparse(e)}")

    def boolean(self, e):
        if isinstance(e, ast.BinOp) and isinstance(e.op, ast.BitAnd):
            return f"({self.boolean(e.left)} && {self.boolean(e.right)})"
        # (value != 0.0)[k_list]
        if isinstance(e, ast.Subscript) and isinstance(e.value, ast.Compare) and len(e.value.ops) == 1 \
                and isinstance(e.value.ops[0], ast.NotEq) and isinstance(e.value.left, ast.Name) \
                and e.value.left.id in ('value', 'other_value') and isinstance(e.value.comparators[0], ast.Constant) \
                and e.value.comparators[0].value == 0 and isinstance(e.slice, ast.Name) and e.slice.id in ENTRY:
            arr = 'a' if e.value.left.id == 'value' else 'b'
            return f"decide ({arr}.getD {ENTRY[e.slice.id]} 0 ≠ 0)"
        raise Refuse(f"mask expression {ast.unparse(e)}")


def kernel(f, name, sparse):
    body = [s for s in f.body if not (isinstance(s, ast.Expr) and isinstance(s.value, ast.Constant))]
    src = [ast.unparse(s) for s in body]
    if 'dims = mt.shape[1]' not in src or 'k_list, l_list, m_list = mt.coords' not in src or 'mult_table_vals = mt.data' not in src:
        raise Refuse("unpacking of the table is not `dims = mt.shape[1]; k_list, l_list, m_list = mt.coords; mult_table_vals = mt.data`")
    inner = [s for s in body if isinstance(s, ast.FunctionDef) and s.name == 'mv_mult']
    if len(inner) != 1 or [a.arg for a in inner[0].args.args] != ['value', 'other_value']:
        raise Refuse("inner mv_mult(value, other_value) not found")
    if not (isinstance(body[-1], ast.Return) and ast.unparse(body[-1].value) == 'mv_mult'):
        raise Refuse("does not return mv_mult")
    ib = [s for s in inner[0].body if not (isinstance(s, ast.Expr) and isinstance(s.value, ast.Constant))]
    mask_name, mask_expr = None, None
    i = 0
    if sparse:
        if not (isinstance(ib[0], ast.Assign) and isinstance(ib[0].targets[0], ast.Name)):
            raise Refuse("first statement is not the mask assignment")
        mask_name = ib[0].targets[0].id
        mask_expr = K().boolean(ib[0].value)
        i = 1
    k = K(mask_name)
    if not (isinstance(ib[i], ast.Assign) and ast.unparse(ib[i].targets[0]) == 'res'):
        raise Refuse("res = … expected")
    term = k.factor(ib[i].value)
    if ast.unparse(ib[i + 1]) != 'output = np.zeros(dims, dtype=res.dtype)':
        raise Refuse("output is not np.zeros(dims, dtype=res.dtype)")
    loop = ib[i + 2]
    if not (isinstance(loop, ast.For) and isinstance(loop.target, ast.Tuple) and [x.id for x in loop.target.elts] == ['l', 'val']
            and isinstance(loop.iter, ast.Call) and ast.unparse(loop.iter.func) == 'zip' and len(loop.iter.args) == 2
            and ast.unparse(loop.iter.args[1]) == 'res' and len(loop.body) == 1 and ast.unparse(loop.body[0]) == 'output[l] += val'):
        raise Refuse("accumulation loop is not `for l, val in zip(l_list…, res): output[l] += val`")
    lidx = k.idx(loop.iter.args[0])
    if lidx != 'e.l':
        raise Refuse("the loop does not run over l_list")
    if ast.unparse(ib[i + 3]) != 'return output' or len(ib) != i + 4:
        raise Refuse("tail is not `return output`")
    if sparse and not all(k.used_mask):
        raise Refuse("the mask is not applied to every per-entry array")
    if not sparse and any(k.used_mask):
        raise Refuse("unexpected mask")
    if sparse:
        return (f"def {name}_mask [DecidableEq R] (a b : Array R) (e : Entry) : Bool := {mask_expr}\n"
                f"def {name}_step (a b : Array R) (out : Array R) (e : Entry) : Array R := out.modify {lidx} (· + {term})\n"
                f"def {name} [DecidableEq R] (dims : Nat) (es : List Entry) (a b : Array R) : Array R :=\n"
                f"  (es.filter fun e => {name}_mask a b e).foldl (fun out e => {name}_step a b out e) (Array.replicate dims 0)\n")
    return (f"def {name} (dims : Nat) (es : List Entry) (a b : Array R) : Array R :=\n"
            f"  es.foldl (fun out e => out.modify {lidx} (· + {term})) (Array.replicate dims 0)\n")


def main():
    repo = Path(sys.argv[sys.argv.index('--repo') + 1]) if '--repo' in sys.argv else Path('/repo')
    out = ["import Model.Kernel\nimport Mathlib.Tactic.Ring\n\n/-! GENERATED from the current source by translate/kernels2lean.py — do not edit -/\n"
           "set_option linter.unusedVariables false\nnamespace GenKern\nopen Model\nvariable {R : Type} [Add R] [Mul R] [Zero R] [IntCast R]\n\n"]
    status, thms = {}, []
    tree = ast.parse((repo / 'clifford' / '__init__.py').read_text())

    def emit(name, gen, theorem):
        try:
            out.append(gen())
            thms.append((name, theorem))
            status[name] = dict(status='ok')
        except Refuse as r:
            status[name] = dict(status='refused', reason=str(r))
        except Exception as r:
            status[name] = dict(status='refused', reason=repr(r)[:200])

    emit('kernel_dense', lambda: kernel(find(tree, '_get_mult_function'), 'mv_mult_dense', False),
         "theorem kernel_dense_eq {R : Type} [CommRing R] (dims : Nat) (es : List Model.Entry) (a b : Array R) : "
         "GenKern.mv_mult_dense dims es a b = Model.multDense dims es a b := by\n"
         "  first | (simp only [GenKern.mv_mult_dense, Model.multDense]; done)\n"
         "        | (simp only [GenKern.mv_mult_dense, Model.multDense]; first | rfl | (congr 1; funext out e; congr 1; funext x; ring))\n")
    emit('kernel_sparse', lambda: kernel(find(tree, '_get_mult_function_runtime_sparse'), 'mv_mult_sparse', True),
         "theorem kernel_sparse_eq {R : Type} [CommRing R] [DecidableEq R] (dims : Nat) (es : List Model.Entry) (a b : Array R) : "
         "GenKern.mv_mult_sparse dims es a b = Model.multSparse dims es a b := by\n"
         "  have hmask : ∀ e : Model.Entry, GenKern.mv_mult_sparse_mask a b e = Model.nzMask a b e := by\n"
         "    intro e; first | (simp only [GenKern.mv_mult_sparse_mask, Model.nzMask]; done) | (simp only [GenKern.mv_mult_sparse_mask, Model.nzMask]; first | rfl | (simp [Bool.and_comm]))\n"
         "  have hstep : ∀ (out : Array R) (e : Model.Entry), GenKern.mv_mult_sparse_step a b out e = out.modify e.l (· + a.getD e.k 0 * (e.v : R) * b.getD e.m 0) := by\n"
         "    intro out e; first | (simp only [GenKern.mv_mult_sparse_step]; done) | (simp only [GenKern.mv_mult_sparse_step]; first | rfl | (congr 1; funext x; ring))\n"
         "  simp only [GenKern.mv_mult_sparse, Model.multSparse, Model.multDense]\n"
         "  rw [show (fun e => GenKern.mv_mult_sparse_mask a b e) = Model.nzMask a b from funext hmask]\n"
         "  first | rfl | (congr 1; funext out e; exact hstep out e)\n")

    def gen_dispatch():
        f = find(tree, 'get_mult_function')
        body = [s for s in f.body if not (isinstance(s, ast.Expr) and isinstance(s.value, ast.Constant))]
        if len(body) != 2 or not all(isinstance(s, ast.If) for s in body):
            raise Refuse("get_mult_function is not two `if` statements")
        c0 = ast.unparse(body[0].test)
        if c0 != 'filter_mask is None and grades_a is not None and (grades_b is not None)':
            raise Refuse(f"first condition: {c0}")
        fl = [s for s in body[0].body if isinstance(s, ast.For)]
        if len(fl) != 1:
            raise Refuse("mask loop")
        loop = fl[0]
        if ast.unparse(loop.iter) != 'range(len(filter_mask))' or len(loop.body) != 1 or not isinstance(loop.body[0], ast.If):
            raise Refuse("mask loop shape")
        t1 = loop.body[0]
        iv = loop.target.id
        if ast.unparse(t1.test) != f'gradeList[k_list[{iv}]] in grades_a' or len(t1.body) != 1 or not isinstance(t1.body[0], ast.If) \
                or ast.unparse(t1.body[0].test) != f'gradeList[m_list[{iv}]] in grades_b' \
                or [ast.unparse(s) for s in t1.body[0].body] != [f'filter_mask[{iv}] = 1'] or t1.orelse or t1.body[0].orelse:
            raise Refuse("mask loop body is not `if gradeList[k_list[i]] in grades_a: if gradeList[m_list[i]] in grades_b: filter_mask[i] = 1`")
        pre = [ast.unparse(s) for s in body[0].body if not isinstance(s, ast.For)]
        if pre != ['filter_mask = np.zeros(mt.nnz, dtype=bool)', 'k_list, _, m_list = mt.coords',
                   'filter_mask = sparse.COO(coords=mt.coords, data=filter_mask, shape=mt.shape)']:
            raise Refuse("mask construction")
        if ast.unparse(body[1].test) != 'filter_mask is not None' \
                or [ast.unparse(s) for s in body[1].body] != ['mt = sparse.where(filter_mask, mt, mt.dtype.type(0))', 'return _get_mult_function(mt)'] \
                or [ast.unparse(s) for s in body[1].orelse] != ['return _get_mult_function_runtime_sparse(mt)']:
            raise Refuse("dispatch")
        return ("def grade_filter (grade : Nat → Nat) (ga gb : List Nat) (es : List Entry) : List Entry :=\n"
                "  es.filter fun e => ga.contains (grade e.k) && gb.contains (grade e.m)\n"
                "def get_mult_function [DecidableEq R] (dims : Nat) (grade : Nat → Nat) (es : List Entry) (ga gb : Option (List Nat)) (a b : Array R) : Array R :=\n"
                "  match ga, gb with\n  | some ga, some gb => mv_mult_dense dims (grade_filter grade ga gb es) a b\n  | _, _ => mv_mult_sparse dims es a b\n")
    if status.get('kernel_dense', {}).get('status') == 'ok' and status.get('kernel_sparse', {}).get('status') == 'ok':
        emit('kernel_dispatch', gen_dispatch,
             "theorem kernel_dispatch_eq {R : Type} [CommRing R] [DecidableEq R] (dims : Nat) (grade : Nat → Nat) (es : List Model.Entry) "
             "(ga gb : Option (List Nat)) (a b : Array R) : GenKern.get_mult_function dims grade es ga gb a b = Model.getMultFunction dims grade es ga gb a b := by\n"
             "  cases ga <;> cases gb <;> simp only [GenKern.get_mult_function, Model.getMultFunction, GenKern.grade_filter, Model.gradeFilter, kernel_dense_eq, kernel_sparse_eq]\n")
    else:
        status['kernel_dispatch'] = dict(status='refused', reason='a kernel was refused')

    # ---- the multiplication matrices and the linear system of `Layout.inv_func` (leftLaInv)
    def nodoc(body):
        return [s_ for s_ in body if not (isinstance(s_, ast.Expr) and isinstance(s_.value, ast.Constant))]

    def gen_leftmat():
        f = find(tree, '_numba_val_get_left_mt_matrix')
        if [a.arg for a in f.args.args] != ['x', 'k_list', 'l_list', 'm_list', 'mult_table_vals', 'ndims']:
            raise Refuse("signature of _numba_val_get_left_mt_matrix")
        body = nodoc(f.body)
        src = [ast.unparse(s_) for s_ in body]
        if len(body) != 4 or src[0] != 'intermed = np.zeros((ndims, ndims), dtype=x.dtype)' or src[1] != 'test_ind = 0' or src[3] != 'return intermed':
            raise Refuse("_numba_val_get_left_mt_matrix: frame is not `intermed = zeros; test_ind = 0; for …; return intermed`")
        loop = body[2]
        if not (isinstance(loop, ast.For) and ast.unparse(loop.target) == 'k' and ast.unparse(loop.iter) == 'k_list' and not loop.orelse):
            raise Refuse("loop is not `for k in k_list`")
        env = {'k': 'e.k'}
        acc = None
        stepped = False
        for st in loop.body:
            u = ast.unparse(st)
            if isinstance(st, ast.Assign) and isinstance(st.targets[0], ast.Name) and isinstance(st.value, ast.Subscript) \
                    and isinstance(st.value.value, ast.Name) and st.value.value.id in ENTRY and ast.unparse(st.value.slice) == 'test_ind' and not stepped:
                env[st.targets[0].id] = ENTRY[st.value.value.id]
            elif isinstance(st, ast.AugAssign) and isinstance(st.op, ast.Add) and isinstance(st.target, ast.Subscript) \
                    and ast.unparse(st.target.value) == 'intermed' and isinstance(st.target.slice, ast.Tuple) and len(st.target.slice.elts) == 2 and acc is None and not stepped:
                r_, c_ = (ast.unparse(z) for z in st.target.slice.elts)
                if r_ not in env or c_ not in env:
                    raise Refuse(f"matrix position {u}")
                v = st.value
                if not (isinstance(v, ast.BinOp) and isinstance(v.op, ast.Mult)):
                    raise Refuse(f"increment {u}")

                def fac(z):
                    if ast.unparse(z) == 'mult_table_vals[test_ind]':
                        return '(e.v : R)'
                    if isinstance(z, ast.Subscript) and ast.unparse(z.value) == 'x' and ast.unparse(z.slice) in env:
                        return f"x.getD {env[ast.unparse(z.slice)]} 0"
                    raise Refuse(f"factor {ast.unparse(z)}")
                acc = (env[r_], env[c_], f"{fac(v.left)} * {fac(v.right)}")
            elif u in ('test_ind = test_ind + 1', 'test_ind += 1'):
                stepped = True
            else:
                raise Refuse(f"loop statement {u}")
        if acc is None or not stepped:
            raise Refuse("loop has no accumulation / does not advance test_ind")
        return ("def left_mt_matrix (dims : Nat) (es : List Entry) (x : Array R) : Array (Array R) :=\n"
                f"  es.foldl (fun mat e => mat.modify {acc[0]} (fun row => row.modify {acc[1]} (· + {acc[2]})))\n"
                "    (Array.replicate dims (Array.replicate dims 0))\n")

    emit('kernel_leftmat', gen_leftmat,
         "theorem kernel_leftmat_eq {R : Type} [CommRing R] (dims : Nat) (es : List Model.Entry) (x : Array R) : "
         "GenKern.left_mt_matrix dims es x = Model.leftMat dims es x := by\n"
         "  first | (simp only [GenKern.left_mt_matrix, Model.leftMat]; done)\n"
         "        | (simp only [GenKern.left_mt_matrix, Model.leftMat]; first | rfl | (congr 1; funext mat e; congr 1; funext row; congr 1; funext y; ring))\n")

    def gen_wrappers():
        fl = find(tree, 'val_get_left_mt_matrix')
        if [a.arg for a in fl.args.args] != ['mt', 'x'] or [ast.unparse(s_) for s_ in nodoc(fl.body)] != [
                'dims = mt.shape[1]', 'k_list, l_list, m_list = mt.coords',
                'return _numba_val_get_left_mt_matrix(x, k_list, l_list, m_list, mt.data, dims)']:
            raise Refuse("val_get_left_mt_matrix is not the unpacking of (coords, data, shape[1]) into _numba_val_get_left_mt_matrix")
        fr = find(tree, 'val_get_right_mt_matrix')
        if [a.arg for a in fr.args.args] != ['mt', 'x'] or [ast.unparse(s_) for s_ in nodoc(fr.body)] != ['return val_get_left_mt_matrix(mt.T, x)']:
            raise Refuse("val_get_right_mt_matrix is not val_get_left_mt_matrix(mt.T, x)")
        # `mt.T` reverses the three axes of the COO table: coordinate rows (k, l, m) become (m, l, k)
        return ("def right_mt_matrix (dims : Nat) (es : List Entry) (x : Array R) : Array (Array R) :=\n"
                "  left_mt_matrix dims (es.map fun e => { k := e.m, l := e.l, m := e.k, v := e.v }) x\n")

    if status.get('kernel_leftmat', {}).get('status') == 'ok':
        emit('kernel_rightmat', gen_wrappers,
             "theorem kernel_rightmat_eq {R : Type} [CommRing R] (dims : Nat) (es : List Model.Entry) (x : Array R) : "
             "GenKern.right_mt_matrix dims es x = Model.rightMat dims es x := by\n"
             "  simp only [GenKern.right_mt_matrix, Model.rightMat, kernel_leftmat_eq]\n")
    else:
        status['kernel_rightmat'] = dict(status='refused', reason='the left matrix was refused')

    def gen_lainv():
        ltree = ast.parse((repo / 'clifford' / '_layout.py').read_text())
        cls = [n for n in ltree.body if isinstance(n, ast.ClassDef) and n.name == 'Layout']
        if not cls:
            raise Refuse("class Layout not found")
        fs = [n for n in cls[0].body if isinstance(n, ast.FunctionDef) and n.name == 'inv_func']
        if not fs:
            raise Refuse("Layout.inv_func not found")
        body = nodoc(fs[-1].body)
        src = [ast.unparse(s_) for s_ in body if not isinstance(s_, ast.FunctionDef)]
        want = ['mult_table = self.gmt', 'k_list, l_list, m_list = mult_table.coords', 'mult_table_vals = mult_table.data', 'n_dims = mult_table.shape[1]',
                'identity = np.zeros((n_dims,))', 'identity[self._basis_blade_order.bitmap_to_index[0]] = 1', 'return leftLaInvJIT']
        if src != want:
            raise Refuse(f"inv_func frame: {src}")
        inner = [s_ for s_ in body if isinstance(s_, ast.FunctionDef)]
        if len(inner) != 1 or inner[0].name != 'leftLaInvJIT' or [a.arg for a in inner[0].args.args] != ['value']:
            raise Refuse("inner leftLaInvJIT(value)")
        ib = nodoc(inner[0].body)
        isrc = [ast.unparse(s_) for s_ in ib]
        if len(ib) != 4 or isrc[0] != 'intermed = _numba_val_get_left_mt_matrix(value, k_list, l_list, m_list, mult_table_vals, n_dims)' \
                or not isinstance(ib[1], ast.If) or [ast.unparse(z) for z in ib[1].body] != ["raise ValueError('multivector has no left-inverse')"] or ib[1].orelse \
                or isrc[2] != 'sol = np.linalg.solve(intermed, identity.astype(intermed.dtype))' or isrc[3] != 'return sol':
            raise Refuse(f"leftLaInvJIT body: {isrc}")
        # the guard may only read the matrix (it decides *whether* to answer, not what)
        names_in_guard = {n.id for n in ast.walk(ib[1].test) if isinstance(n, ast.Name)}
        if not names_in_guard <= {'np', 'intermed', '_settings', 'abs'}:
            raise Refuse(f"guard reads {sorted(names_in_guard)}")
        return ("/-- the system `leftLaInvJIT` hands to `np.linalg.solve`: matrix and right-hand side -/\n"
                "def lainv_matrix (dims : Nat) (es : List Entry) (value : Array R) : Array (Array R) := left_mt_matrix dims es value\n"
                "def lainv_rhs [One R] (b2i : Nat → Nat) (j : Nat) : R := if j = b2i 0 then 1 else 0\n")

    if status.get('kernel_leftmat', {}).get('status') == 'ok':
        emit('kernel_lainv', gen_lainv,
             "theorem kernel_lainv_eq {R : Type} [CommRing R] (n : Nat) (sig : Nat → Int) (i2b b2i : Nat → Nat) (M x : Array R) :\n"
             "    (∀ j, j < 2 ^ n → (Model.mulVec (GenKern.lainv_matrix (2 ^ n) (Model.constructGmt sig i2b b2i (2 ^ n)) M) x).getD j 0 = GenKern.lainv_rhs b2i j) ↔\n"
             "    (∀ j, j < 2 ^ n → (Model.mulVec (Model.leftMat (2 ^ n) (Model.constructGmt sig i2b b2i (2 ^ n)) M) x).getD j 0 = if j = b2i 0 then 1 else 0) := by\n"
             "  simp only [GenKern.lainv_matrix, GenKern.lainv_rhs, kernel_leftmat_eq]\n")
    else:
        status['kernel_lainv'] = dict(status='refused', reason='the left matrix was refused')

    out.append("end GenKern\n\n")
    names = {}
    for name, t in thms:
        out.append(t + "\n")
    for name, t in thms:
        names[name] = t.split()[1]
        out.append(f"#print axioms {t.split()[1]}\n")
    if '--status' in sys.argv:
        sys.stderr.write(json.dumps(dict(status=status, theorems=names)))
    sys.stdout.write("".join(out))


if __name__ == '__main__':
    main()
