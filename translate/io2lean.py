#!/usr/bin/env python3
"""Tie A: the file layer `clifford/io.py` (+ the signature test of `Layout.load_ga_file`).

`write_ga_file`, `write_json_file`, `read_ga_file`, `read_json_file` are walked statement by statement from the CURRENT source by a
small symbolic interpreter over the boolean flags (`compression`, `transpose`; dense path `sparse=False`): for every flag
combination it records what is stored under `data` (`mv_array` or `mv_array.T`, through `.tolist()` for JSON), the stored
`transpose` / `sparse` attributes, the support, the metric and the names; for the readers, which expression is returned when the
stored flag is set / not set.  The result is printed as Lean functions on the record model (`TensorIO.FileRec`) and proved equal
to `TensorIO.write` / `TensorIO.read`, the functions `C20.read_write_roundtrip` and `compression_flag_irrelevant` are about.
`load_ga_file`: the guard must be `not np.allclose(np.diagonal(metric), self.sig)` → `ValueError` (shape check; `TensorIO.loadCheck`).
Anything outside this fragment is REFUSED (h5py / json themselves, `tolist` / `np.array` nesting are the record model's parameters,
compared with real files by the correspondence check).
"""
import ast
import json
import sys
from pathlib import Path


class Refuse(Exception):
    pass


def data_expr(e):
    """`mv_array[.T][.tolist()]` → 'a' | 'a.T'"""
    s = ast.unparse(e)
    if s.endswith('.tolist()'):
        s = s[:-len('.tolist()')]
    if s == 'mv_array':
        return 'a'
    if s == 'mv_array.T':
        return 'a.T'
    raise Refuse(f"stored data is {s}")


class Writer:
    def __init__(self, flags):
        self.flags = flags
        self.st = {}

    def test(self, t):
        s = ast.unparse(t)
        if s in self.flags:
            return self.flags[s]
        if s == 'support is not None':
            return False
        raise Refuse(f"test {s}")

    def store(self, key, val):
        self.st[key] = val

    def run(self, stmts):
        for st in stmts:
            if isinstance(st, ast.Expr) and isinstance(st.value, ast.Constant):
                continue
            if isinstance(st, ast.If):
                self.run(st.body if self.test(st.test) else st.orelse)
            elif isinstance(st, ast.With):
                self.run(st.body)
            elif isinstance(st, ast.Try):
                self.run(st.body)
            elif isinstance(st, ast.Raise):
                raise Refuse("raise reached on the dense path")
            elif isinstance(st, ast.Assign) and len(st.targets) == 1:
                self.assign(st.targets[0], st.value)
            elif isinstance(st, ast.Expr) and isinstance(st.value, ast.Call):
                self.call(st.value)
            else:
                raise Refuse(f"statement {ast.unparse(st)[:50]}")

    def call(self, c):
        s = ast.unparse(c.func)
        if s == 'json.dump':
            if ast.unparse(c.args[0]) != 'data_dict':
                raise Refuse("json.dump of something else")
            self.store('dumped', True)
            return
        if s == 'f.create_dataset':
            self.create(c)
            return
        raise Refuse(f"call {s}")

    def create(self, c):
        name = c.args[0].value if c.args and isinstance(c.args[0], ast.Constant) else None
        kw = {k.arg: k.value for k in c.keywords}
        if name is None or 'data' not in kw:
            raise Refuse(f"create_dataset {ast.unparse(c)[:60]}")
        if name == 'data':
            comp = {k: ast.unparse(v) for k, v in kw.items() if k != 'data'}
            if comp not in ({}, {'compression': "'gzip'", 'compression_opts': 'compression_opts'}):
                raise Refuse(f"dataset options {comp}")
            self.store('data', data_expr(kw['data']))
        elif name == 'support':
            if not ast.unparse(kw['data']).startswith('np.array([]'):
                raise Refuse("dense support is not empty")
            self.store('support', '[]')
        elif name == 'metric':
            if ast.unparse(kw['data']) != 'metric':
                raise Refuse("metric")
            self.store('metric', 'm')
        elif name == 'basis_names':
            if ast.unparse(kw['data']) != 'np.asarray(basis_names, dtype=dt)':
                raise Refuse("basis names")
            self.store('names', 'nm')
        else:
            raise Refuse(f"dataset {name}")

    def assign(self, tgt, val):
        t, v = ast.unparse(tgt), ast.unparse(val)
        if isinstance(val, ast.Call) and ast.unparse(val.func) == 'f.create_dataset':
            self.create(val)
            return
        if t in ('data_dict', 'dset_data') and v == '{}':
            return
        if t in ("data_dict['version']", "f.attrs['version']"):
            if v != "'0.0.1'":
                raise Refuse("version")
            return
        if t == 'dt':
            return
        if t == "dset_data['data']":
            self.store('data', data_expr(val))
        elif t in ("dset_data['transpose']", "dset_data.attrs['transpose']"):
            self.store('transpose', {'True': 'true', 'False': 'false'}[v])
        elif t in ("dset_data['sparse']", "dset_data.attrs['sparse']"):
            self.store('sparse', {'True': 'true', 'False': 'false'}[v])
        elif t == "dset_data['support']":
            if v != '[]':
                raise Refuse("dense support is not empty")
            self.store('support', '[]')
        elif t == "data_dict['dataset']":
            if v != 'dset_data':
                raise Refuse("dataset")
        elif t == "data_dict['metric']":
            if v != 'metric.tolist()':
                raise Refuse("metric")
            self.store('metric', 'm')
        elif t == "data_dict['basis_names']":
            if v != '[str(s) for s in basis_names]':
                raise Refuse("basis names")
            self.store('names', 'nm')
        else:
            raise Refuse(f"assignment {t} = {v[:40]}")


def gen_write(fn, lean_name):
    rows = []
    for c in (True, False):
        for t in (True, False):
            w = Writer(dict(compression=c, transpose=t, sparse=False))
            w.run(fn.body)
            need = {'data', 'transpose', 'sparse', 'support', 'metric', 'names'}
            if not need <= set(w.st):
                raise Refuse(f"not stored: {sorted(need - set(w.st))}")
            rows.append(f"  | {str(c).lower()}, {str(t).lower()} => {{ data := {w.st['data']}, transpose := {w.st['transpose']}, sparse := {w.st['sparse']}, "
                        f"support := {w.st['support']}, metric := {w.st['metric']}, names := {w.st['names']} }}")
    return (f"def {lean_name} {{α μ ν : Type}} (c t : Bool) (a : Tensor α) (m : μ) (nm : ν) : FileRec α μ ν :=\n  match c, t with\n" + "\n".join(rows) + "\n\n")


def gen_read(fn, lean_name, data_src, flag_src, sparse_src, support_src, metric_src):
    """the reader: `transpose = <flag>; if transpose: data_array = X.T else: data_array = X; sparse …; return (data_array, metric, basis_names, support)`"""
    body = fn.body
    while len(body) >= 1 and isinstance(body[-1], ast.Return) is False and isinstance(body[0], ast.Expr):
        body = body[1:]
    stmts = []
    ret = None
    for st in body:
        if isinstance(st, ast.With):
            stmts += st.body
        elif isinstance(st, ast.Return):
            ret = st
        elif isinstance(st, ast.Expr) and isinstance(st.value, ast.Constant):
            continue
        else:
            raise Refuse(f"top-level statement {ast.unparse(st)[:40]}")
    if ret is None or ast.unparse(ret.value) != '(data_array, metric, basis_names, support)':
        raise Refuse("return value")
    env = {}
    data_branches = sparse_branches = None
    for st in stmts:
        if isinstance(st, ast.Assert):
            continue
        if isinstance(st, ast.Assign) and len(st.targets) == 1 and isinstance(st.targets[0], ast.Name):
            env[st.targets[0].id] = ast.unparse(st.value)
        elif isinstance(st, ast.If) and ast.unparse(st.test) == 'transpose':
            def da(b):
                if not (len(b) == 1 and isinstance(b[0], ast.Assign) and ast.unparse(b[0].targets[0]) == 'data_array'):
                    raise Refuse("transpose branch")
                return ast.unparse(b[0].value)
            data_branches = (da(st.body), da(st.orelse))
        elif isinstance(st, ast.If) and ast.unparse(st.test) == 'sparse':
            def sa(b):
                if not (len(b) == 1 and isinstance(b[0], ast.Assign) and ast.unparse(b[0].targets[0]) == 'support'):
                    raise Refuse("sparse branch")
                return ast.unparse(b[0].value)
            sparse_branches = (sa(st.body), sa(st.orelse))
        elif isinstance(st, ast.If) and ast.unparse(st.test) == "hasattr(h5py.Dataset, 'asstr')":
            names = {ast.unparse(b) for b in st.body + st.orelse}
            if names != {"basis_names = f['basis_names'].asstr()[:]", "basis_names = f['basis_names'][:]"}:
                raise Refuse("basis names")
            env['basis_names'] = "f['basis_names'][:]"
        else:
            raise Refuse(f"statement {ast.unparse(st)[:50]}")
    if env.get('transpose') != flag_src or env.get('sparse') != sparse_src:
        raise Refuse("flags are not read from the stored attributes")
    if env.get('metric') not in metric_src:
        raise Refuse("metric")
    if env.get('basis_names') not in ("f['basis_names'][:]", "np.array(f['basis_names'][:])"):
        raise Refuse("basis names")
    if data_branches is None or sparse_branches is None:
        raise Refuse("branches missing")

    def dexp(s):
        if s == data_src:
            return 'f.data'
        if s == data_src + '.T':
            return 'f.data.T'
        raise Refuse(f"returned data is {s}")
    if sparse_branches != (support_src, 'None'):
        raise Refuse("support branches")
    return (f"def {lean_name} {{α μ ν : Type}} (f : FileRec α μ ν) : Tensor α × μ × ν × Option (List Nat) :=\n"
            f"  (if f.transpose then {dexp(data_branches[0])} else {dexp(data_branches[1])}, f.metric, f.names, if f.sparse then some f.support else none)\n\n")


def main():
    repo = Path(sys.argv[sys.argv.index('--repo') + 1]) if '--repo' in sys.argv else Path('/repo')
    out = ["import Model\n\n/-! GENERATED from the current source by translate/io2lean.py — do not edit -/\n"
           "set_option linter.unusedVariables false\nnamespace GenIO\nopen TensorIO\n\n"]
    status, thms = {}, []
    try:
        tree = ast.parse((repo / 'clifford' / 'io.py').read_text())
        fns = {n.name: n for n in tree.body if isinstance(n, ast.FunctionDef)}
        out.append(gen_write(fns['write_ga_file'], 'writeGa'))
        out.append(gen_write(fns['write_json_file'], 'writeJson'))
        out.append(gen_read(fns['read_ga_file'], 'readGa', 'data[:]', "data.attrs['transpose']", "data.attrs['sparse']", "data.attrs['support']", ("f['metric'][:]",)))
        out.append(gen_read(fns['read_json_file'], 'readJson', "np.array(data['data'])", "data['transpose']", "data['sparse']", "data['support']", ("np.array(f['metric'])",)))
        # MVArray.save hands its flags through; Layout.load_ga_file compares the stored metric diagonal with the signature
        mva = ast.parse((repo / 'clifford' / '_mvarray.py').read_text())
        cls = [n for n in mva.body if isinstance(n, ast.ClassDef) and n.name == 'MVArray'][0]
        save = [n for n in cls.body if isinstance(n, ast.FunctionDef) and n.name == 'save'][0]
        calls = [n for n in ast.walk(save) if isinstance(n, ast.Call) and ast.unparse(n.func) == 'write_ga_file']
        if len(calls) != 1:
            raise Refuse("MVArray.save does not call write_ga_file once")
        kw = {k.arg: ast.unparse(k.value) for k in calls[0].keywords}
        if [ast.unparse(a) for a in calls[0].args] != ['filename', 'self.value', 'first_element.layout.metric', 'first_element.layout.basis_names'] \
                or kw.get('compression') != 'compression' or kw.get('transpose') != 'transpose':
            raise Refuse("MVArray.save does not pass value, metric, names and flags through")
        lay = ast.parse((repo / 'clifford' / '_layout.py').read_text())
        lcls = [n for n in lay.body if isinstance(n, ast.ClassDef) and n.name == 'Layout'][0]
        load = [n for n in lcls.body if isinstance(n, ast.FunctionDef) and n.name == 'load_ga_file'][0]
        lb = [ast.unparse(s) for s in load.body if not (isinstance(s, ast.Expr) and isinstance(s.value, ast.Constant))]
        if lb != ["data_array, metric, basis_names, support = read_ga_file(filename)",
                  "if not np.allclose(np.diagonal(metric), self.sig):\n    raise ValueError('The signature of the ga file does not match this layout')",
                  "return cf.MVArray.from_value_array(self, data_array)"]:
            raise Refuse("load_ga_file is not read; signature test; from_value_array")
        thms.append(('io_files',
                     "/-- the four file functions of `clifford/io.py` as the source has them now are the record model's `write` / `read` (all flag combinations),\n"
                     "`MVArray.save` passes value, metric, names and flags through, and `Layout.load_ga_file` is read → signature test → `from_value_array` -/\n"
                     "theorem io_files_eq {α μ ν : Type} (c t : Bool) (a : TensorIO.Tensor α) (m : μ) (nm : ν) (f : TensorIO.FileRec α μ ν) :\n"
                     "    GenIO.writeGa c t a m nm = TensorIO.write c t a m nm ∧ GenIO.writeJson c t a m nm = TensorIO.write c t a m nm\n"
                     "    ∧ GenIO.readGa f = TensorIO.read f ∧ GenIO.readJson f = TensorIO.read f := by\n"
                     "  refine ⟨?_, ?_, rfl, rfl⟩ <;> cases c <;> cases t <;> rfl\n"))
        status['io_files'] = dict(status='ok')
    except Refuse as r:
        status['io_files'] = dict(status='refused', reason=str(r))
        out = out[:1]
    except Exception as r:
        status['io_files'] = dict(status='refused', reason=repr(r)[:200])
        out = out[:1]
    out.append("end GenIO\n\n")
    names = {}
    for name, t in thms:
        out.append(t + "\n")
        tn = [l.split()[1] for l in t.splitlines() if l.startswith('theorem ')][-1]
        names[name] = tn
        out.append(f"#print axioms {tn}\n")
    if '--status' in sys.argv:
        sys.stderr.write(json.dumps(dict(status=status, theorems=names)))
    sys.stdout.write("".join(out))


if __name__ == '__main__':
    main()
