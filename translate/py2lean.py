#!/usr/bin/env python3
"""Tie A (translator) for the loop-free integer code of clifford: Python `ast` -> Lean 4 definitions.

Reads the *current* source under --repo and prints one Lean file: namespace `Gen` holds the translated definitions,
followed by one theorem per definition stating that it equals the hand-written model (`Model.*`) or the proof-side
spec, each closed by a fixed semantic tactic (so harmless rewrites such as `abs(j - i)` for `abs(i - j)` still check).
A function whose body is outside the fragment is *refused* (reported in the status JSON, never guessed).

Translated: imt_check / omt_check / lcmt_check, the exponents inside np.power(-1, .) of adjoint_func and _grade_invol,
Layout._from_Cl's signature expression, _shirokov_inverse's N, and the constructor arguments of the predefined
algebra modules (documented signatures).  stdlib only.
"""
import ast
import json
import sys
from pathlib import Path


class Refuse(Exception):
    pass


def expr_int(e, env):
    """integer-valued expression -> Lean Int term"""
    if isinstance(e, ast.Name):
        if e.id in env:
            return env[e.id]
        raise Refuse(f"unknown name {e.id}")
    if isinstance(e, ast.Constant) and isinstance(e.value, int) and not isinstance(e.value, bool):
        return f"({e.value} : Int)"
    if isinstance(e, ast.UnaryOp) and isinstance(e.op, ast.USub):
        return f"(-{expr_int(e.operand, env)})"
    if isinstance(e, ast.UnaryOp) and isinstance(e.op, ast.UAdd):
        return expr_int(e.operand, env)
    if isinstance(e, ast.BinOp):
        a, b = expr_int(e.left, env), expr_int(e.right, env)
        if isinstance(e.op, ast.Add):
            return f"({a} + {b})"
        if isinstance(e.op, ast.Sub):
            return f"({a} - {b})"
        if isinstance(e.op, ast.Mult):
            return f"({a} * {b})"
        if isinstance(e.op, ast.FloorDiv):
            return f"({a} / {b})"        # Int division in Lean 4 core is floor-like for a non-negative divisor (Int.div rounds toward -inf with `/` = Int.div? see note)
        raise Refuse(f"operator {type(e.op).__name__}")
    if isinstance(e, ast.Call) and isinstance(e.func, ast.Name) and e.func.id == 'abs' and len(e.args) == 1:
        return f"((Int.natAbs {expr_int(e.args[0], env)} : Nat) : Int)"
    raise Refuse(f"expression {ast.dump(e)[:60]}")


def expr_bool(e, env):
    if isinstance(e, ast.BoolOp):
        parts = [expr_bool(v, env) for v in e.values]
        op = ' && ' if isinstance(e.op, ast.And) else ' || '
        return '(' + op.join(parts) + ')'
    if isinstance(e, ast.UnaryOp) and isinstance(e.op, ast.Not):
        return f"(!{expr_bool(e.operand, env)})"
    if isinstance(e, ast.Compare) and len(e.ops) == 1:
        a, b = expr_int(e.left, env), expr_int(e.comparators[0], env)
        op = e.ops[0]
        if isinstance(op, ast.Eq):
            return f"({a} == {b})"
        if isinstance(op, ast.NotEq):
            return f"({a} != {b})"
        if isinstance(op, ast.Lt):
            return f"(decide ({a} < {b}))"
        if isinstance(op, ast.LtE):
            return f"(decide ({a} ≤ {b}))"
        if isinstance(op, ast.Gt):
            return f"(decide ({a} > {b}))"
        if isinstance(op, ast.GtE):
            return f"(decide ({a} ≥ {b}))"
    raise Refuse(f"boolean expression {ast.dump(e)[:60]}")


def find_func(tree, name, cls=None):
    nodes = tree.body
    if cls:
        for n in tree.body:
            if isinstance(n, ast.ClassDef) and n.name == cls:
                nodes = n.body
    for n in nodes:
        if isinstance(n, ast.FunctionDef) and n.name == name:
            return n
    raise Refuse(f"function {name} not found")


def single_return(fn):
    body = [s for s in fn.body if not (isinstance(s, ast.Expr) and isinstance(s.value, ast.Constant))]
    if len(body) != 1 or not isinstance(body[0], ast.Return):
        raise Refuse("body is not a single return")
    return body[0].value


def power_exponent(fn, var='grades'):
    """find `np.power(-1, <expr>)` in the function and return <expr>"""
    for node in ast.walk(fn):
        if isinstance(node, ast.Call) and isinstance(node.func, ast.Attribute) and node.func.attr == 'power' and len(node.args) == 2:
            base = node.args[0]
            if isinstance(base, ast.UnaryOp) and isinstance(base.op, ast.USub) and isinstance(base.operand, ast.Constant) and base.operand.value == 1:
                return node.args[1]
    raise Refuse("np.power(-1, .) not found")


def nat_expr(e, env):
    """natural-number expression (grades are non-negative): Lean Nat term with truncated subtraction made explicit"""
    if isinstance(e, ast.Name):
        if e.id in env:
            return env[e.id]
        raise Refuse(f"unknown name {e.id}")
    if isinstance(e, ast.Attribute):
        # self._basis_blade_order.grades
        if e.attr == 'grades':
            return env['grades']
        raise Refuse(f"attribute {e.attr}")
    if isinstance(e, ast.Constant) and isinstance(e.value, int):
        return str(e.value)
    if isinstance(e, ast.BinOp):
        a, b = nat_expr(e.left, env), nat_expr(e.right, env)
        op = {ast.Add: '+', ast.Sub: '-', ast.Mult: '*', ast.FloorDiv: '/', ast.Pow: '^'}.get(type(e.op))
        if op is None:
            raise Refuse(f"operator {type(e.op).__name__}")
        return f"({a} {op} {b})"
    raise Refuse(f"expression {ast.dump(e)[:60]}")


def list_expr(e, env):
    """[c]*n + ... -> Lean List Int"""
    if isinstance(e, ast.BinOp) and isinstance(e.op, ast.Add):
        return f"({list_expr(e.left, env)} ++ {list_expr(e.right, env)})"
    if isinstance(e, ast.BinOp) and isinstance(e.op, ast.Mult) and isinstance(e.left, ast.List) and len(e.left.elts) == 1:
        c = e.left.elts[0]
        if isinstance(c, ast.UnaryOp) and isinstance(c.op, (ast.USub, ast.UAdd)) and isinstance(c.operand, ast.Constant):
            v = -c.operand.value if isinstance(c.op, ast.USub) else c.operand.value
        elif isinstance(c, ast.Constant):
            v = c.value
        else:
            raise Refuse("list element")
        return f"(List.replicate {nat_expr(e.right, env)} ({v} : Int))"
    if isinstance(e, ast.List):
        return '[' + ', '.join(f"({int_const(x)} : Int)" for x in e.elts) + ']'
    raise Refuse(f"list expression {ast.dump(e)[:60]}")


def int_const(c):
    if isinstance(c, ast.UnaryOp) and isinstance(c.op, ast.USub) and isinstance(c.operand, ast.Constant):
        return -c.operand.value
    if isinstance(c, ast.UnaryOp) and isinstance(c.op, ast.UAdd) and isinstance(c.operand, ast.Constant):
        return c.operand.value
    if isinstance(c, ast.Constant) and isinstance(c.value, int):
        return c.value
    raise Refuse("integer constant")


def module_signature(path):
    """documented constructor call of a predefined module -> ('Cl', p, q, r) | ('sig', [...]) | ('conf', p, q, r)"""
    tree = ast.parse(path.read_text())

    def callname(c):
        f = c.func
        return f.id if isinstance(f, ast.Name) else (f.attr if isinstance(f, ast.Attribute) else None)
    calls = [n.value for n in tree.body if isinstance(n, ast.Assign) and isinstance(n.value, ast.Call)]
    cl = [c for c in calls if callname(c) == 'Cl']
    conf = [c for c in calls if callname(c) == 'conformalize']
    lay = [c for c in calls if callname(c) == 'Layout']
    if conf:
        inner = conf[0].args[0]
        if isinstance(inner, ast.Call) and callname(inner) == 'Cl':
            src = inner
        elif cl:
            src = cl[0]
        else:
            raise Refuse("conformalize() of an unknown layout")
        if src.keywords and any(k.arg not in ('firstIdx', 'names') for k in src.keywords):
            raise Refuse("unexpected keyword in Cl()")
        args = [int_const(a) for a in src.args] + [0, 0, 0]
        if conf[0].keywords:
            raise Refuse("conformalize with keywords (added_sig?)")
        return ('conf', args[0], args[1], args[2])
    if cl:
        if cl[0].keywords and any(k.arg not in ('firstIdx', 'names') for k in cl[0].keywords):
            raise Refuse("unexpected keyword in Cl()")
        args = [int_const(a) for a in cl[0].args] + [0, 0, 0]
        return ('Cl', args[0], args[1], args[2])
    if lay:
        return ('sig', lay[0].args[0])
    raise Refuse("constructor call not found")


DOCUMENTED = {
    'g2': [1, 1], 'g3': [1, 1, 1], 'g4': [1, 1, 1, 1], 'g3_1': [1, 1, 1, -1], 'g2c': [1, 1, 1, -1], 'g3c': [1, 1, 1, 1, -1],
    'pga': [0, 1, 1, 1], 'pga2d': [0, 1, 1], 'gac': [1, 1, 1, 1, 1, -1, -1, -1], 'dpga': [1, 1, 1, 1, -1, -1, -1, -1],
    'dg3c': [1, 1, 1, 1, -1, 1, 1, 1, 1, -1],
}


def main():
    repo = Path(sys.argv[sys.argv.index('--repo') + 1]) if '--repo' in sys.argv else Path('/repo')
    out = []
    status = {}
    thms = []
    out.append("import Model.Table\nimport Model.Inverse\nimport Proofs.Rev\nimport Proofs.Invol\n\n/-! GENERATED from the current source by translate/py2lean.py — do not edit -/\nset_option linter.unusedSimpArgs false\nset_option linter.unusedVariables false\nnamespace Gen\n")
    layout_src = (repo / 'clifford' / '_layout.py').read_text()
    tree = ast.parse(layout_src)

    def emit(name, gen, theorem):
        try:
            d = gen()
            out.append(d)
            thms.append((name, theorem))
            status[name] = dict(status='ok')
        except Refuse as r:
            status[name] = dict(status='refused', reason=str(r))
        except Exception as r:      # malformed source etc.
            status[name] = dict(status='refused', reason=repr(r)[:200])

    for fn, model in (('imt_check', 'imtCheck'), ('omt_check', 'omtCheck'), ('lcmt_check', 'lcmtCheck')):
        def gen(fn=fn):
            f = find_func(tree, fn)
            args = [a.arg for a in f.args.args]
            if len(args) != 3:
                raise Refuse("arity")
            env = {a: a for a in args}
            return f"def {fn} ({' '.join(args)} : Int) : Bool := {expr_bool(single_return(f), env)}\n"
        emit(fn, gen,
             f"theorem {fn}_eq_model (v i j : Int) : Gen.{fn} v i j = Model.{model} v i j := by\n"
             f"  rw [Bool.eq_iff_iff]\n  simp only [Gen.{fn}, Model.{model}, Bool.and_eq_true, Bool.or_eq_true, beq_iff_eq, bne_iff_ne, ne_eq, decide_eq_true_eq, Bool.not_eq_true']\n  all_goals omega\n")

    def gen_rev():
        f = find_func(tree, 'adjoint_func', 'Layout')
        return f"def rev_exponent (grades : Nat) : Nat := {nat_expr(power_exponent(f), {'grades': 'grades'})}\n"
    emit('rev_exponent', gen_rev,
         "theorem rev_exponent_parity (g : Nat) : Gen.rev_exponent g % 2 = tri g % 2 := by\n"
         "  have h := tri_eq g\n  simp only [Gen.rev_exponent]\n  first | (rw [h]) | (rw [h, Nat.mul_comm (g - 1) g]) | (rw [h]; ring_nf)\n")

    def gen_gi():
        f = find_func(tree, '_grade_invol', 'Layout')
        return f"def gi_exponent (grades : Nat) : Nat := {nat_expr(power_exponent(f), {'grades': 'grades'})}\n"
    emit('gi_exponent', gen_gi, "theorem gi_exponent_parity (g : Nat) : Gen.gi_exponent g % 2 = g % 2 := by\n  simp only [Gen.gi_exponent]\n  try omega\n")

    def gen_cl():
        f = find_func(tree, '_from_Cl', 'Layout')
        call = single_return(f)
        if not (isinstance(call, ast.Call) and call.args):
            raise Refuse("_from_Cl does not return a call")
        return f"def from_Cl (p q r : Nat) : List Int := {list_expr(call.args[0], {'p': 'p', 'q': 'q', 'r': 'r'})}\n"
    emit('from_Cl', gen_cl, "theorem from_Cl_eq_model (p q r : Nat) : Gen.from_Cl p q r = Model.sigOfCl p q r := by\n  simp [Gen.from_Cl, Model.sigOfCl]\n")

    def gen_shir():
        f = find_func(tree, '_shirokov_inverse', 'Layout')
        env = {'n': 'n'}
        lines = []
        for st in f.body:
            if isinstance(st, ast.Assign) and isinstance(st.targets[0], ast.Name):
                nm = st.targets[0].id
                if nm == 'n':
                    continue
                if nm in ('exponent', 'N'):
                    env[nm] = nat_expr(st.value, env)
        if 'N' not in env:
            raise Refuse("N not assigned")
        return f"def shirokovN (n : Nat) : Nat := {env['N']}\n"
    emit('shirokovN', gen_shir, "theorem shirokovN_eq (n : Nat) : Gen.shirokovN n = 2 ^ ((n + 1) / 2) := by\n  simp [Gen.shirokovN]\n")

    # predefined modules
    for modname, doc in DOCUMENTED.items():
        def gen(modname=modname):
            kind = module_signature(repo / 'clifford' / f'{modname}.py')
            if kind[0] == 'Cl':
                return f"def sig_{modname} : List Int := Gen.from_Cl {kind[1]} {kind[2]} {kind[3]}\n"
            if kind[0] == 'conf':
                return f"def sig_{modname} : List Int := Gen.from_Cl {kind[1]} {kind[2]} {kind[3]} ++ [1, -1]\n"
            return f"def sig_{modname} : List Int := {list_expr(kind[1], {})}\n"
        if status.get('from_Cl', {}).get('status') != 'ok':
            status['sig_' + modname] = dict(status='refused', reason='from_Cl was refused')
            continue
        emit('sig_' + modname, gen,
             f"theorem sig_{modname}_documented : Gen.sig_{modname} = [{', '.join(str(x) for x in doc)}] := by\n  decide\n")
    out.append("end Gen\n\n")
    for name, t in thms:
        out.append(t + "\n")
    names = []
    for name, t in thms:
        tn = t.split()[1]
        names.append(tn)
        out.append(f"#print axioms {tn}\n")
    if '--status' in sys.argv:
        sys.stderr.write(json.dumps(dict(status=status, theorems={n: t.split()[1] for n, t in thms})))
    sys.stdout.write("".join(out))


if __name__ == '__main__':
    main()
