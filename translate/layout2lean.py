#!/usr/bin/env python3
"""Tie A, seventh slice: the per-layout function generators of clifford/_layout.py that the executable model mirrors in
`Model.Ctx` — complements, vee, dual, reversion, grade involution.

Recognised on the CURRENT source (anything else is REFUSED):

  _gen_complement_func(omt):   omt_ps_part = omt[:, -1, :];  signlist[n] = (-1)**(omt_ps_part[n, dims-1-n] < 0.001)
                               comp_func:  Yval[i] = Xval[dims-1-i]*s   for i, s in enumerate(signlist)
  left_/right_complement_func: `_gen_complement_func(omt=self.omt)` / `(omt=self.omt.T)`
  vee_func:                    lc_func(omt_func(rc_func(aval), rc_func(bval)))
  dual_func:                   right complement if 0 in sig; else gmt_func(Xval, Iinv) with Iinv[-1] = 1 / gmt[-1, 0, -1]
  adjoint_func/_grade_invol:   `signs * value` with `signs = np.power(-1, <exponent of the grades>)`

Generated theorems: these are `Model.Ctx.leftCompSigns / rightCompSigns / compWith / vee / dual / rev / gradeInvol`, the
executable definitions that the correspondence compares with the implementation and that `Props/C04.lean`, `Props/C06.lean`
relate to the canonical maps at the storage level.
"""
import ast
import json
import sys
from pathlib import Path


class Refuse(Exception):
    pass


def method(cls, name):
    hits = [n for n in cls.body if isinstance(n, ast.FunctionDef) and n.name == name]
    if not hits:
        raise Refuse(f"method {name} not found")
    f = hits[-1]
    return f, [s for s in f.body if not (isinstance(s, ast.Expr) and isinstance(s.value, ast.Constant))]


def nat_expr(e, env):
    if isinstance(e, ast.Name) and e.id in env:
        return env[e.id]
    if isinstance(e, ast.Constant) and isinstance(e.value, int) and e.value >= 0:
        return str(e.value)
    if isinstance(e, ast.BinOp):
        a, b = nat_expr(e.left, env), nat_expr(e.right, env)
        sym = {ast.Add: '+', ast.Sub: '-', ast.Mult: '*', ast.FloorDiv: '/'}.get(type(e.op))
        if sym:
            return f"({a} {sym} {b})"
    raise Refuse(f"index expression {ast.unparse(e)}")


def main():
    repo = Path(sys.argv[sys.argv.index('--repo') + 1]) if '--repo' in sys.argv else Path('/repo')
    out = ["import Model.MV\n\n/-! GENERATED from the current source by translate/layout2lean.py — do not edit -/\n"
           "set_option linter.unusedVariables false\nnamespace GenLay\nopen Model\n\n"]
    status, thms = {}, []
    tree = ast.parse((repo / 'clifford' / '_layout.py').read_text())
    cls = [n for n in tree.body if isinstance(n, ast.ClassDef) and n.name == 'Layout'][0]

    def emit(name, gen, theorem):
        try:
            out.append(gen())
            thms.append((name, theorem))
            status[name] = dict(status='ok')
        except Refuse as r:
            status[name] = dict(status='refused', reason=str(r))
        except Exception as r:
            status[name] = dict(status='refused', reason=repr(r)[:200])

    def g_comp():
        f, b = method(cls, '_gen_complement_func')
        src = [ast.unparse(s) for s in b]
        if src[0] != 'dims = self.gaDims' or src[1] != 'signlist = np.zeros(dims)' or src[2] != 'omt_ps_part = omt[:, -1, :]':
            raise Refuse("prologue is not `dims = self.gaDims; signlist = np.zeros(dims); omt_ps_part = omt[:, -1, :]`")
        loop = b[3]
        if not (isinstance(loop, ast.For) and ast.unparse(loop.iter) == 'range(dims)' and len(loop.body) == 1):
            raise Refuse("sign loop")
        nv = loop.target.id
        st = loop.body[0]
        if not (isinstance(st, ast.Assign) and ast.unparse(st.targets[0]) == f'signlist[{nv}]'):
            raise Refuse("signlist[n] = …")
        v = st.value
        # (-1) ** (omt_ps_part[i, j] < 0.001)
        if not (isinstance(v, ast.BinOp) and isinstance(v.op, ast.Pow) and ast.unparse(v.left) == '-1' and isinstance(v.right, ast.Compare)
                and isinstance(v.right.ops[0], ast.Lt) and isinstance(v.right.comparators[0], ast.Constant)
                and 0 < v.right.comparators[0].value <= 1 and isinstance(v.right.left, ast.Subscript)
                and ast.unparse(v.right.left.value) == 'omt_ps_part' and isinstance(v.right.left.slice, ast.Tuple) and len(v.right.left.slice.elts) == 2):
            raise Refuse("sign expression is not (-1)**(omt_ps_part[i, j] < c) with 0 < c <= 1")
        env = {nv: 'n', 'dims': 'dims'}
        i0, i1 = [nat_expr(x, env) for x in v.right.left.slice.elts]
        inner = [s for s in b if isinstance(s, ast.FunctionDef)]
        if len(inner) != 1 or [a.arg for a in inner[0].args.args] != ['Xval']:
            raise Refuse("comp_func(Xval)")
        ib = inner[0].body
        if [ast.unparse(s) for s in ib[:1]] != ['Yval = np.zeros(dims, dtype=Xval.dtype)'] or ast.unparse(ib[-1]) != 'return Yval':
            raise Refuse("comp_func prologue / epilogue")
        lp = ib[1]
        if not (isinstance(lp, ast.For) and ast.unparse(lp.iter) == 'enumerate(signlist)' and isinstance(lp.target, ast.Tuple) and len(lp.body) == 1):
            raise Refuse("comp_func loop")
        iv, sv = [x.id for x in lp.target.elts]
        a = lp.body[0]
        if not (isinstance(a, ast.Assign) and ast.unparse(a.targets[0]) == f'Yval[{iv}]' and isinstance(a.value, ast.BinOp)
                and isinstance(a.value.op, ast.Mult) and isinstance(a.value.left, ast.Subscript) and ast.unparse(a.value.left.value) == 'Xval'
                and isinstance(a.value.right, ast.Name) and a.value.right.id == sv):
            raise Refuse("comp_func body is not Yval[i] = Xval[<index>] * s")
        xi = nat_expr(a.value.left.slice, {iv: 'i', 'dims': 'dims'})
        if ast.unparse(b[-1]) != 'return comp_func':
            raise Refuse("does not return comp_func")
        # the two uses
        fl, bl = method(cls, 'left_complement_func')
        fr, br = method(cls, 'right_complement_func')
        if [ast.unparse(s) for s in bl] != ['return self._gen_complement_func(omt=self.omt)'] \
                or [ast.unparse(s) for s in br] != ['return self._gen_complement_func(omt=self.omt.T)']:
            raise Refuse("left/right complement are not _gen_complement_func(omt=self.omt) / (omt=self.omt.T)")
        return (f"/-- `signlist` for a table `omt`; `tr = true` reads the transposed table `omt.T[a, b, c] = omt[c, b, a]` -/\n"
                f"def comp_signs (omt : List Entry) (dims : Nat) (tr : Bool) : Array Int :=\n"
                f"  (Array.range dims).map fun n => if (if tr then Ctx.tableAt omt {i1} (dims - 1) {i0} else Ctx.tableAt omt {i0} (dims - 1) {i1}) < 1 then -1 else 1\n"
                f"def comp_func (dims : Nat) (signs : Array Int) (X : MV) : MV :=\n"
                f"  (Array.range dims).map fun i => X.getD {xi} 0 * ((signs.getD i 0 : Int) : Rat)\n")
    emit('lay_complement', g_comp,
         "theorem lay_complement_eq (C : Model.Ctx) (X : Model.MV) : GenLay.comp_signs C.omt C.dims false = C.leftCompSigns "
         "∧ GenLay.comp_signs C.omt C.dims true = C.rightCompSigns ∧ GenLay.comp_func C.dims C.leftCompSigns X = C.leftComp X "
         "∧ GenLay.comp_func C.dims C.rightCompSigns X = C.rightComp X := by\n"
         "  refine ⟨?_, ?_, ?_, ?_⟩ <;> simp [GenLay.comp_signs, GenLay.comp_func, Model.Ctx.leftCompSigns, Model.Ctx.rightCompSigns, Model.Ctx.leftComp, Model.Ctx.rightComp, Model.Ctx.compWith]\n")

    def g_vee():
        f, b = method(cls, 'vee_func')
        src = [ast.unparse(s) for s in b]
        if src[:3] != ['rc_func = self.right_complement_func', 'lc_func = self.left_complement_func', 'omt_func = self.omt_func']:
            raise Refuse("vee prologue")
        inner = [s for s in b if isinstance(s, ast.FunctionDef)]
        if len(inner) != 1 or [a.arg for a in inner[0].args.args] != ['aval', 'bval'] \
                or [ast.unparse(s) for s in inner[0].body] != ['return lc_func(omt_func(rc_func(aval), rc_func(bval)))']:
            raise Refuse("vee body is not lc_func(omt_func(rc_func(aval), rc_func(bval)))")
        return "def vee (C : Ctx) (a b : MV) : MV := C.leftComp (C.op (C.rightComp a) (C.rightComp b))\n"
    emit('lay_vee', g_vee, "theorem lay_vee_eq (C : Model.Ctx) (a b : Model.MV) : GenLay.vee C a b = C.vee a b := by\n  simp only [GenLay.vee, Model.Ctx.vee]\n")

    def g_dual():
        f, b = method(cls, 'dual_func')
        if len(b) != 1 or not isinstance(b[0], ast.If) or ast.unparse(b[0].test) != '0 in self.sig':
            raise Refuse("dual_func is not `if 0 in self.sig`")
        if [ast.unparse(s) for s in b[0].body] != ['return self.right_complement_func']:
            raise Refuse("degenerate branch is not the right complement")
        eb = b[0].orelse
        src = [ast.unparse(s) for s in eb]
        need = ['II_scalar = self.gmt[-1, 0, -1]', 'inv_II_scalar = 1 / II_scalar', 'Iinv[-1] = inv_II_scalar', 'gmt_func = self.gmt_func']
        if not all(x in src for x in need):
            raise Refuse("non-degenerate branch: II_scalar = gmt[-1, 0, -1]; inv_II_scalar = 1 / II_scalar; Iinv[-1] = inv_II_scalar expected")
        inner = [s for s in eb if isinstance(s, ast.FunctionDef)]
        if len(inner) != 1 or [ast.unparse(s) for s in inner[0].body] != ['return gmt_func(Xval, Iinv)']:
            raise Refuse("dual body is not gmt_func(Xval, Iinv)")
        zeros = [s for s in ast.walk(b[0]) if isinstance(s, ast.Assign) and ast.unparse(s.targets[0]) == 'Iinv']
        if not zeros or not all(ast.unparse(z.value).startswith('np.zeros(self.gaDims') for z in zeros):
            raise Refuse("Iinv is not a zero array of length gaDims")
        return ("def dual (C : Ctx) (a : MV) : MV :=\n  if C.degenerate then C.rightComp a\n  else\n"
                "    let ii := Ctx.tableAt C.gmt (C.dims - 1) 0 (C.dims - 1)\n    C.gp a (C.zero.setIfInBounds (C.dims - 1) (1 / (ii : Rat)))\n")
    emit('lay_dual', g_dual, "theorem lay_dual_eq (C : Model.Ctx) (a : Model.MV) : GenLay.dual C a = C.dual a := by\n  simp only [GenLay.dual, Model.Ctx.dual]\n")

    def g_invol():
        txt = []
        for mname, inner_name, var, lean, grades_src in (('adjoint_func', 'adjoint_func', 'value', 'rev', None), ('_grade_invol', 'grade_inv_func', 'mv.value', 'grade_invol', None)):
            f, b = method(cls, mname)
            sg = [s for s in b if isinstance(s, ast.Assign) and ast.unparse(s.targets[0]) == 'signs']
            if len(sg) != 1 or not (isinstance(sg[0].value, ast.Call) and ast.unparse(sg[0].value.func) == 'np.power' and ast.unparse(sg[0].value.args[0]) == '-1'):
                raise Refuse(f"{mname}: signs is not np.power(-1, …)")
            expo = sg[0].value.args[1]
            gnames = {'grades': 'g', 'self._basis_blade_order.grades': 'g'}
            def ex(e):
                k = ast.unparse(e)
                if k in gnames:
                    return 'g'
                if isinstance(e, ast.Constant) and isinstance(e.value, int) and e.value >= 0:
                    return str(e.value)
                if isinstance(e, ast.BinOp):
                    sym = {ast.Add: '+', ast.Sub: '-', ast.Mult: '*', ast.FloorDiv: '/'}.get(type(e.op))
                    if sym:
                        return f"({ex(e.left)} {sym} {ex(e.right)})"
                raise Refuse(f"{mname}: exponent {k}")
            if mname == 'adjoint_func' and 'grades = self._basis_blade_order.grades' not in [ast.unparse(s) for s in b]:
                raise Refuse("adjoint_func: grades is not self._basis_blade_order.grades")
            inner = [s for s in b if isinstance(s, ast.FunctionDef) and s.name == inner_name]
            if len(inner) != 1:
                raise Refuse(f"{mname}: inner function")
            isrc = [ast.unparse(s) for s in inner[0].body if not (isinstance(s, ast.Expr) and isinstance(s.value, ast.Constant))]
            ok = isrc == ['return signs * value'] if mname == 'adjoint_func' else isrc == ['newValue = signs * mv.value', 'return self.MultiVector(newValue)']
            if not ok:
                raise Refuse(f"{mname}: body is not signs * value")
            txt.append(f"def {lean}_signs (C : Ctx) : Array Int := C.L.grades.map fun g => Ctx.negOnePow {ex(expo)}\n"
                       f"def {lean} (C : Ctx) (a : MV) : MV := (Array.range C.dims).map fun i => (((GenLay.{lean}_signs C).getD i 0 : Int) : Rat) * a.getD i 0\n")
        return "".join(txt)
    emit('lay_involutions', g_invol,
         "theorem lay_involutions_eq (C : Model.Ctx) (a : Model.MV) : GenLay.rev C a = C.rev a ∧ GenLay.grade_invol C a = C.gradeInvol a := by\n"
         "  constructor <;> simp [GenLay.rev, GenLay.rev_signs, GenLay.grade_invol, GenLay.grade_invol_signs, Model.Ctx.rev, Model.Ctx.revSigns, Model.Ctx.gradeInvol, Model.Ctx.giSigns]\n")

    out.append("end GenLay\n\n")
    names = {}
    for name, t in thms:
        out.append(t + "\n")
    for name, t in thms:
        names[name] = t.split()[1]
        out.append(f"#print axioms {t.split()[1]}\n")
    if '--status' in sys.argv:
        sys.stderr.write(json.dumps(dict(status=status, theorems=names)))
    sys.stdout.write("".join(out))


if __name__ == '__main__':
    main()
