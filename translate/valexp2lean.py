#!/usr/bin/env python3
"""Tie A, fourteenth slice: the value-level kernel `val_exp` of clifford/tools/g3c/rotor_parameterisation.py (what `ga_exp`,
`TR_biv_params_to_rotor`, `R_biv_params_to_rotor` and `interpolate_TR_rotors` run).

The body is straight-line array code over the layout's product kernels.  It is read statement by statement on the CURRENT source:

  gmt_func(a, b)        -> a * b                      imt_func(a, b)  -> ip a b   (the inner product: a parameter of the model)
  mult_with_ninf(a)     -> a * ninf                   (checked: `return gmt_func(mv, ninf.value)`)
  no.value, I3.value    -> no, I3                     a - b, a + b, a / phi, np.sin(phi) * a, np.sinc(phi / np.pi) * a
  x[0] += np.cos(phi)   -> x + c • 1                  (slot 0 is the scalar slot of g3c's default order)
  phi = np.sqrt(-float(gmt_func(phiP_val, phiP_val)[0]))   (recorded: φ² = −⟨(φP)²⟩₀)
  if phi == 0.0: R_val = mult_with_ninf(t_val); R_val[0] += 1.0; return R_val

and printed as two Lean definitions (rotation branch, translation branch) over an arbitrary ℚ-algebra.  The generated theorem states
that they are the closed forms of `Proofs/GaExp.lean`:

  val_exp_rot = (c + s P)(1 + tn·ninf) + σ·(tp·ninf)   with t = B|no, P = (B − t·ninf)/φ, Pn = P·I3, tn = (t|Pn)·Pn, tp = t − tn
  val_exp_transl = 1 + (B|no)·ninf

which `C12.ga_exp_is_series_exponential`, `ga_exp_unit_rotor`, `ga_exp_translation_branch` are about.  Anything else is REFUSED.
"""
import ast
import json
import sys
from pathlib import Path


class Refuse(Exception):
    pass


def nodoc(body):
    return [s for s in body if not (isinstance(s, ast.Expr) and isinstance(s.value, ast.Constant))]


class V:
    def __init__(self):
        self.env = {'B_val': 'B'}

    def tr(self, e):
        u = ast.unparse(e)
        if isinstance(e, ast.Name):
            if e.id in self.env:
                return self.env[e.id]
            raise Refuse(f"unbound {e.id}")
        if u == 'no.value':
            return 'no'
        if u == 'I3.value':
            return 'I3'
        if isinstance(e, ast.Call):
            fn = ast.unparse(e.func)
            if fn == 'gmt_func' and len(e.args) == 2:
                return f"({self.tr(e.args[0])} * {self.tr(e.args[1])})"
            if fn == 'imt_func' and len(e.args) == 2:
                return f"(ip {self.tr(e.args[0])} {self.tr(e.args[1])})"
            if fn == 'mult_with_ninf' and len(e.args) == 1:
                return f"({self.tr(e.args[0])} * ninf)"
            raise Refuse(f"call {u}")
        if isinstance(e, ast.BinOp):
            if isinstance(e.op, (ast.Add, ast.Sub)):
                return f"({self.tr(e.left)} {'+' if isinstance(e.op, ast.Add) else '-'} {self.tr(e.right)})"
            if isinstance(e.op, ast.Div) and ast.unparse(e.right) == 'phi':
                return f"((1 / φ) • {self.tr(e.left)})"
            if isinstance(e.op, ast.Mult):
                sc = {'np.sin(phi)': 's', 'np.sinc(phi / np.pi)': 'σ', 'np.cos(phi)': 'c'}
                l, r = ast.unparse(e.left), ast.unparse(e.right)
                if l in sc:
                    return f"({sc[l]} • {self.tr(e.right)})"
                if r in sc:
                    return f"({sc[r]} • {self.tr(e.left)})"
            raise Refuse(f"operator in {u}")
        raise Refuse(f"expression {u}")


def main():
    repo = Path(sys.argv[sys.argv.index('--repo') + 1]) if '--repo' in sys.argv else Path('/repo')
    out = ["import Proofs.GaExp\n\n/-! GENERATED from the current source by translate/valexp2lean.py — do not edit -/\n"
           "set_option linter.unusedVariables false\nset_option linter.unusedSimpArgs false\nnamespace GenExp\nvariable {A : Type} [Ring A] [Algebra ℚ A]\n\n"]
    status, thms = {}, []
    try:
        g = ast.parse((repo / 'clifford/tools/g3c/__init__.py').read_text())
        mw = [n for n in g.body if isinstance(n, ast.FunctionDef) and n.name == 'mult_with_ninf']
        if not mw or [ast.unparse(s) for s in nodoc(mw[-1].body)] != ['return gmt_func(mv, ninf.value)']:
            raise Refuse("mult_with_ninf is not `return gmt_func(mv, ninf.value)`")
        t = ast.parse((repo / 'clifford/tools/g3c/rotor_parameterisation.py').read_text())
        hdr = {ast.unparse(s) for s in t.body if isinstance(s, ast.Assign)}
        for need in ('ninf = einf', 'no = -eo', 'I3 = e123', 'imt_func = layout.imt_func', 'gmt_func = layout.gmt_func'):
            if need not in hdr:
                raise Refuse(f"module constant `{need}` not found")
        fs = [n for n in t.body if isinstance(n, ast.FunctionDef) and n.name == 'val_exp']
        if not fs or [a.arg for a in fs[-1].args.args] != ['B_val']:
            raise Refuse("val_exp(B_val) not found")
        body = nodoc(fs[-1].body)
        v = V()
        defs = []
        transl = None
        phi_seen = False
        ret = None
        for st in body:
            u = ast.unparse(st)
            if isinstance(st, ast.Assign) and len(st.targets) == 1 and isinstance(st.targets[0], ast.Name):
                nm = st.targets[0].id
                if nm == 'phi':
                    if u != 'phi = np.sqrt(-float(gmt_func(phiP_val, phiP_val)[0]))':
                        raise Refuse(f"phi: {u}")
                    phi_seen = True
                    continue
                term = v.tr(st.value)
                ln = nm.replace('_val', '')
                defs.append((ln, term))
                v.env[nm] = ln
            elif isinstance(st, ast.AugAssign) and isinstance(st.op, ast.Add) and isinstance(st.target, ast.Subscript) \
                    and isinstance(st.target.value, ast.Name) and ast.unparse(st.target.slice) == '0' and ast.unparse(st.value) == 'np.cos(phi)':
                nm = st.target.value.id
                ln = nm.replace('_val', '') + "'"
                defs.append((ln, f"({v.env[nm]} + c • (1 : A))"))
                v.env[nm] = ln
            elif isinstance(st, ast.If):
                if ast.unparse(st.test) != 'phi == 0.0' or st.orelse or not phi_seen:
                    raise Refuse(f"branch {ast.unparse(st.test)}")
                src = [ast.unparse(z) for z in nodoc(st.body)]
                if src != ['R_val = mult_with_ninf(t_val)', 'R_val[0] += 1.0', 'return R_val']:
                    raise Refuse(f"translation branch: {src}")
                transl = f"(({v.env['t_val']} * ninf) + (1 : A))"
                transl_defs = list(defs)
            elif isinstance(st, ast.Return):
                ret = v.tr(st.value)
            else:
                raise Refuse(f"statement {u}")
        if ret is None or transl is None:
            raise Refuse("missing return / translation branch")

        def lets(ds, res):
            return "".join(f"  let {n} : A := {tm}\n" for n, tm in ds) + f"  {res}\n"
        out.append("def val_exp_rot (ip : A → A → A) (no ninf I3 : A) (φ c s σ : ℚ) (B : A) : A :=\n" + lets(defs, ret))
        out.append("def val_exp_transl (ip : A → A → A) (no ninf : A) (B : A) : A :=\n" + lets(transl_defs, transl))
        thms.append(('val_exp',
                     "theorem val_exp_eq {A : Type} [Ring A] [Algebra ℚ A] (ip : A → A → A) (no ninf I3 : A) (φ c s σ : ℚ) (B : A) :\n"
                     "    (let t := ip B no; let P := (1 / φ) • (B - t * ninf); let Pn := P * I3; let tn := ip t Pn * Pn; let tp := t - tn;\n"
                     "      GenExp.val_exp_rot ip no ninf I3 φ c s σ B = (c • (1 : A) + s • P) * (1 + tn * ninf) + σ • (tp * ninf))\n"
                     "    ∧ GenExp.val_exp_transl ip no ninf B = 1 + ip B no * ninf := by\n"
                     "  refine ⟨?_, ?_⟩\n"
                     "  · simp only [GenExp.val_exp_rot]\n"
                     "    simp only [mul_add, add_mul, mul_sub, sub_mul, smul_mul_assoc, mul_smul_comm, smul_smul, mul_assoc, mul_one, one_mul, smul_add, smul_sub]\n"
                     "    first | done | module\n"
                     "  · simp only [GenExp.val_exp_transl]\n    first | done | module | abel\n"))
        status['val_exp'] = dict(status='ok')
    except Refuse as r:
        status['val_exp'] = dict(status='refused', reason=str(r))
    except Exception as r:
        status['val_exp'] = dict(status='refused', reason=repr(r)[:200])
    out.append("end GenExp\n\n")
    for _, th in thms:
        out.append(th + "\n")
    for _, th in thms:
        out.append(f"#print axioms {th.split()[1]}\n")
    if '--status' in sys.argv:
        sys.stderr.write(json.dumps(dict(status=status, theorems={n: th.split()[1] for n, th in thms})))
    sys.stdout.write("".join(out))


if __name__ == '__main__':
    main()
