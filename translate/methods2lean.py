#!/usr/bin/env python3
"""Tie A, fifth slice: straight-line `MultiVector` methods (clifford/_multivector.py) in canonical terms.

Each target method body is read from the CURRENT source and translated to a term over canonical multivectors `CMV n R`
(`gmul`, `rev`, `gi`, `mmul … lcmtCheck`, `•`, `±`); one generated theorem per method states that it is the object the
property theorems are about:

  conjugate            = cconj                      (C04)
  even / odd           = evenPart / oddPart         (C04, with `0.5` as a `half` satisfying `2·half = 1`)
  mag2                 = scalar component of ~M M   (C04; `[0]` is the scalar slot of a scalar-first storage order)
  commutator / anti…   = half·(AB ∓ BA)             (C08: what `inner_is_half_anticommutator` / `wedge_is_half_commutator` use)
  _pick_inv (last line)= dinv · ~M                  (C05 `normalInv`; `dinv` = the reciprocal of the scalar `(~M M)[()]`)
  project              = (x ⌋ B) · B⁻¹              (C09; `self.inv()` is a parameter)
  dual(I)              = M · I⁻¹                    (C06)

Fragment: `self`, `other`, parameters, `~x`, `x.gradeInvol()`, `x * y`, `x ± y`, `0.5 * x`, `x / 2`, `x.lc(y)`,
`self.layout.gmt_func(a, b)`, `self.layout.adjoint_func(x.value)`, `x.value`, `x.inv()` (parameter), `[0]` on a value array,
division by a named scalar (parameter).  Anything else is REFUSED.
"""
import ast
import json
import sys
from pathlib import Path


class Refuse(Exception):
    pass


class Tr:
    def __init__(self, env, opaque=None):
        self.env = dict(env)
        self.opaque = opaque or {}

    def tr(self, e):
        key = ast.unparse(e)
        if key in self.opaque:
            return self.opaque[key]
        if isinstance(e, ast.Name):
            if e.id in self.env:
                return self.env[e.id]
            raise Refuse(f"unbound name {e.id}")
        if isinstance(e, ast.Attribute) and e.attr == 'value':
            return self.tr(e.value)
        if isinstance(e, ast.UnaryOp) and isinstance(e.op, ast.Invert):
            return f"(rev n {self.tr(e.operand)})"
        if isinstance(e, ast.Call):
            fn = ast.unparse(e.func)
            if isinstance(e.func, ast.Attribute) and e.func.attr == 'gradeInvol' and not e.args:
                return f"(gi n {self.tr(e.func.value)})"
            if isinstance(e.func, ast.Attribute) and e.func.attr == 'lc' and len(e.args) == 1:
                return f"(mmul n sig Model.lcmtCheck {self.tr(e.func.value)} {self.tr(e.args[0])})"
            if fn == 'self.layout.gmt_func' and len(e.args) == 2:
                return f"(gmul n sig {self.tr(e.args[0])} {self.tr(e.args[1])})"
            if fn == 'self.layout.adjoint_func' and len(e.args) == 1:
                return f"(rev n {self.tr(e.args[0])})"
            raise Refuse(f"call {key}")
        if isinstance(e, ast.BinOp):
            if isinstance(e.op, ast.Mult):
                if isinstance(e.left, ast.Constant):
                    if e.left.value == 0.5:
                        return f"(half • {self.tr(e.right)})"
                    raise Refuse(f"constant {e.left.value!r}")
                return f"(gmul n sig {self.tr(e.left)} {self.tr(e.right)})"
            if isinstance(e.op, ast.Div):
                if isinstance(e.right, ast.Constant) and e.right.value == 2:
                    return f"(half • {self.tr(e.left)})"
                r = ast.unparse(e.right)
                if r in self.opaque and self.opaque[r].startswith('SCALARINV:'):
                    return f"({self.opaque[r][10:]} • {self.tr(e.left)})"
                raise Refuse(f"division by {r}")
            if isinstance(e.op, ast.Sub):
                return f"({self.tr(e.left)} - {self.tr(e.right)})"
            if isinstance(e.op, ast.Add):
                return f"({self.tr(e.left)} + {self.tr(e.right)})"
        raise Refuse(f"expression {key}")


def method(tree, name):
    cls = [n for n in tree.body if isinstance(n, ast.ClassDef) and n.name == 'MultiVector'][0]
    hits = [n for n in cls.body if isinstance(n, ast.FunctionDef) and n.name == name]
    if not hits:
        raise Refuse(f"method {name} not found")
    f = hits[-1]
    return f, [s for s in f.body if not (isinstance(s, ast.Expr) and isinstance(s.value, ast.Constant))]


def single_return(body):
    if len(body) != 1 or not isinstance(body[0], ast.Return):
        raise Refuse("body is not a single return")
    return body[0].value


HDR = "{R : Type} [CommRing R] (n : Nat) (sig : Nat → R)"


def main():
    repo = Path(sys.argv[sys.argv.index('--repo') + 1]) if '--repo' in sys.argv else Path('/repo')
    out = ["import Proofs.Invol\nimport Proofs.Graded\nimport Proofs.Blade\nimport Proofs.InvProps\nimport Model.Dispatch\n\n"
           "/-! GENERATED from the current source by translate/methods2lean.py — do not edit -/\n"
           "set_option linter.unusedVariables false\nnamespace GenMeth\nvariable {R : Type} [CommRing R] (n : Nat) (sig : Nat → R)\n\n"]
    status, thms = {}, []
    tree = ast.parse((repo / 'clifford' / '_multivector.py').read_text())

    def emit(name, gen, theorem):
        try:
            out.append(gen())
            thms.append((name, theorem))
            status[name] = dict(status='ok')
        except Refuse as r:
            status[name] = dict(status='refused', reason=str(r))
        except Exception as r:
            status[name] = dict(status='refused', reason=repr(r)[:200])

    def g_conj():
        f, b = method(tree, 'conjugate')
        return f"def conjugate (M : CMV n R) : CMV n R := {Tr(dict(self='M')).tr(single_return(b))}\n"
    emit('meth_conjugate', g_conj,
         f"theorem meth_conjugate_eq {HDR} (M : CMV n R) : GenMeth.conjugate n M = cconj n M := by\n  simp only [GenMeth.conjugate, cconj]\n")

    for nm, tgt, lem in (('even', 'evenPart', 'half_add_gi'), ('odd', 'oddPart', 'half_sub_gi')):
        def g(nm=nm):
            f, b = method(tree, nm)
            return f"def {nm} (half : R) (M : CMV n R) : CMV n R := {Tr(dict(self='M')).tr(single_return(b))}\n"
        emit('meth_' + nm, g,
             f"theorem meth_{nm}_eq {HDR} (half : R) (h : 2 * half = 1) (M : CMV n R) : GenMeth.{nm} n half M = {tgt} n M := by\n"
             f"  simp only [GenMeth.{nm}]\n  exact {lem} n half h M\n")

    def g_mag2():
        f, b = method(tree, 'mag2')
        if len(b) != 2 or not (isinstance(b[0], ast.Assign) and ast.unparse(b[0].targets[0]) == 'mv_val' and ast.unparse(b[1]) == 'return mv_val[0]'):
            raise Refuse("mag2 is not `mv_val = …; return mv_val[0]`")
        return f"def mag2 (M : CMV n R) : R := ({Tr(dict(self='M')).tr(b[0].value)}) fzero\n"
    emit('meth_mag2', g_mag2,
         f"theorem meth_mag2_eq {HDR} (M : CMV n R) : GenMeth.mag2 n sig M = _root_.mag2 n sig M := by\n  simp only [GenMeth.mag2, _root_.mag2]\n")

    for nm, op in (('commutator', '-'), ('anticommutator', '+')):
        def g(nm=nm):
            f, b = method(tree, nm)
            return f"def {nm} (half : R) (A B : CMV n R) : CMV n R := {Tr(dict(self='A', other='B')).tr(single_return(b))}\n"
        emit('meth_' + nm, g,
             f"theorem meth_{nm}_eq {HDR} (half : R) (A B : CMV n R) : GenMeth.{nm} n sig half A B = half • (gmul n sig A B {op} gmul n sig B A) := by\n"
             f"  simp only [GenMeth.{nm}]\n")

    def g_pick():
        f, b = method(tree, '_pick_inv')
        a0, a1 = b[0], b[1]
        if ast.unparse(a0) != 'Madjoint = ~self' or ast.unparse(a1) != 'MadjointM = Madjoint * self':
            raise Refuse("_pick_inv does not start with Madjoint = ~self; MadjointM = Madjoint * self")
        sc = [s for s in b if isinstance(s, ast.Assign) and ast.unparse(s.targets[0]) == 'MadjointM_scalar']
        if len(sc) != 1 or ast.unparse(sc[0].value) != 'MadjointM[()]':
            raise Refuse("MadjointM_scalar is not MadjointM[()]")
        if not isinstance(b[-1], ast.Return):
            raise Refuse("no final return")
        tr = Tr(dict(self='M'), opaque={'MadjointM_scalar': 'SCALARINV:dinv'})
        tr.env['Madjoint'] = tr.tr(a0.value)
        tr.env['MadjointM'] = tr.tr(a1.value)
        return (f"def pick_inv_product (M : CMV n R) : CMV n R := {tr.env['MadjointM']}\n"
                f"def pick_inv_result (dinv : R) (M : CMV n R) : CMV n R := {tr.tr(b[-1].value)}\n")
    emit('meth_pick_inv', g_pick,
         f"theorem meth_pick_inv_eq {HDR} (dinv : R) (M : CMV n R) : GenMeth.pick_inv_product n sig M = gmul n sig (rev n M) M "
         f"∧ GenMeth.pick_inv_result n dinv M = dinv • rev n M := by\n  constructor <;> simp only [GenMeth.pick_inv_product, GenMeth.pick_inv_result]\n")

    def g_pow():
        f, b = method(tree, '__pow__')
        src = [ast.unparse(x) for x in b]
        # validation prelude: type test, integrality test, `other = int(round(other))`
        if len(b) != 8 or not (isinstance(b[0], ast.If) and isinstance(b[0].body[0], ast.Raise) and isinstance(b[1], ast.If)
                               and isinstance(b[1].body[0], ast.Raise)) or src[2] != 'other = int(round(other))':
            raise Refuse("__pow__ prelude")
        z = b[3]
        if not (isinstance(z, ast.If) and ast.unparse(z.test) == 'other == 0' and not z.orelse
                and [ast.unparse(x) for x in z.body] == ['return self._newMV(dtype=self.value.dtype) + 1']):
            raise Refuse("__pow__: exponent 0 does not return the zero multivector + 1")
        ng = b[4]
        if not (isinstance(ng, ast.If) and ast.unparse(ng.test) == 'other < 0'
                and [ast.unparse(x) for x in ng.body] == ['base = self.inv()', 'other = -other']
                and [ast.unparse(x) for x in ng.orelse] == ['base = self']):
            raise Refuse("__pow__: negative exponents do not switch to base = self.inv(), other = -other")
        if src[5] != 'newMV = self._newMV(np.array(base.value))':
            raise Refuse("__pow__: the accumulator does not start as a copy of base")
        lp = b[6]
        if not (isinstance(lp, ast.For) and ast.unparse(lp.iter) == 'range(1, other)'
                and [ast.unparse(x) for x in lp.body] in (['newMV = newMV * base'], ['newMV *= base'])):
            raise Refuse("__pow__: loop is not `for i in range(1, other): newMV = newMV * base`")
        if src[7] != 'return newMV':
            raise Refuse("__pow__: return")
        return ("def mv_pow (M Minv : CMV n R) (k : Int) : CMV n R :=\n"
                "  if k = 0 then (0 : CMV n R) + one n\n"
                "  else\n"
                "    let base := if k < 0 then Minv else M\n"
                "    let other : Nat := if k < 0 then (-k).toNat else k.toNat\n"
                "    (List.range' 1 (other - 1)).foldl (fun newMV _ => gmul n sig newMV base) base\n")
    emit('meth_pow', g_pow,
         f"theorem meth_pow_eq {HDR} (M Minv : Cl n sig) (k : Int) : (GenMeth.mv_pow n sig M Minv k : Cl n sig) = "
         f"if k = 0 then 1 else if k < 0 then Minv ^ (-k).toNat else M ^ k.toNat := by\n"
         f"  have hloop : ∀ (A : Cl n sig) (m : Nat), 1 ≤ m → (List.range' 1 (m - 1)).foldl (fun (acc : CMV n R) _ => gmul n sig acc A) A = A ^ m :=\n"
         f"    fun A m hm => Cl.pow_loop' A m hm\n"
         f"  unfold GenMeth.mv_pow\n"
         f"  by_cases h0 : k = 0\n"
         f"  · simp only [h0, if_true]; exact zero_add (1 : Cl n sig)\n"
         f"  · by_cases hneg : k < 0\n"
         f"    · simp only [h0, hneg, if_true, if_false]; exact hloop Minv _ (by omega)\n"
         f"    · simp only [h0, hneg, if_false]; exact hloop M _ (by omega)\n")

    def g_project():
        f, b = method(tree, 'project')
        if not isinstance(b[-1], ast.Return):
            raise Refuse("no final return")
        if ast.unparse(b[0]) != 'other, mv = self._checkOther(other, coerce=True)':
            raise Refuse("first statement")
        t = Tr(dict(self='B', other='x'), opaque={'self.inv()': 'Binv'}).tr(b[-1].value)
        return f"def project (x B Binv : CMV n R) : CMV n R := {t}\n"
    emit('meth_project', g_project,
         f"theorem meth_project_eq {HDR} (x B Binv : CMV n R) : GenMeth.project n sig x B Binv = gmul n sig (mmul n sig Model.lcmtCheck x B) Binv := by\n"
         f"  simp only [GenMeth.project]\n")

    def g_dual():
        f, b = method(tree, 'dual')
        if not (isinstance(b[-1], ast.Return) and ast.unparse(b[-1].value) == 'self * Iinv'):
            raise Refuse("dual(I) does not return self * Iinv")
        iinv = [s for s in ast.walk(f) if isinstance(s, ast.Assign) and ast.unparse(s.targets[0]) == 'Iinv']
        if len(iinv) != 1 or ast.unparse(iinv[0].value) != 'I.inv()':
            raise Refuse("Iinv is not I.inv()")
        t = Tr(dict(self='M', Iinv='Iinv')).tr(b[-1].value)
        return f"def dual_with (M Iinv : CMV n R) : CMV n R := {t}\n"
    emit('meth_dual', g_dual,
         f"theorem meth_dual_eq {HDR} (M Iinv : CMV n R) : GenMeth.dual_with n sig M Iinv = gmul n sig M Iinv := by\n  simp only [GenMeth.dual_with]\n")

    # ---- the binary operators: which table kernel, operand order, what a scalar operand does (the frame of each method)
    def g_operators():
        cls = [n_ for n_ in tree.body if isinstance(n_, ast.ClassDef) and n_.name == 'MultiVector'][0]
        aliases = {ast.unparse(st.targets[0]): ast.unparse(st.value) for st in cls.body if isinstance(st, ast.Assign) and len(st.targets) == 1}
        rows = []
        kernels = {'__mul__': ('gmt_func', False), '__rmul__': ('gmt_func', True), '__xor__': ('omt_func', False), '__rxor__': ('omt_func', True),
                   '__or__': ('imt_func', False), '__ror__': ('imt_func', True)}
        for name, (kern, swapped) in kernels.items():
            f, b = method(tree, name)
            sym = {'mul': '*', 'xor': '^', 'or': '|'}[name.strip('_').lstrip('r')]
            if len(b) != 3 or not isinstance(b[1], ast.If) or ast.unparse(b[1].test) != 'mv' or ast.unparse(b[2]) != 'return self._newMV(newValue)':
                raise Refuse(f"{name}: frame is not `other, mv = _checkOther(..); if mv: .. else: ..; return self._newMV(newValue)`")
            chk = ast.unparse(b[0])
            want_chk = 'other, mv = self._checkOther(other, coerce=False)' if kern != 'imt_func' else 'other, mv = self._checkOther(other)'
            if chk != want_chk:
                raise Refuse(f"{name}: {chk}")
            a_, b_ = ('other.value', 'self.value') if swapped else ('self.value', 'other.value')
            if [ast.unparse(z) for z in b[1].body] != [f'newValue = self.layout.{kern}({a_}, {b_})']:
                raise Refuse(f"{name}: multivector branch is {[ast.unparse(z) for z in b[1].body]}")
            els = b[1].orelse
            if len(els) != 2 or not isinstance(els[0], ast.If) or ast.unparse(els[0].test) != 'isinstance(other, np.ndarray)':
                raise Refuse(f"{name}: scalar branch frame")
            arr = [ast.unparse(z) for z in els[0].body]
            if arr != ['obj = self.__array__()', f'return other {sym} obj' if swapped else f'return obj {sym} other']:
                raise Refuse(f"{name}: ndarray branch {arr}")
            tail = ast.unparse(els[1])
            if kern == 'imt_func':
                if tail != 'return self._newMV(dtype=np.result_type(self.value.dtype, other))':
                    raise Refuse(f"{name}: scalar branch {tail}")
                scalar = 'zero'
            else:
                if tail not in ('newValue = other * self.value', 'newValue = self.value * other'):
                    raise Refuse(f"{name}: scalar branch {tail}")
                scalar = 'scale'
            rows.append((name, kern, 'other,self' if swapped else 'self,other', scalar))
        # additive operators: the scalar is coerced to the grade-0 multivector, then the arrays are added / subtracted
        for name, expr in (('__add__', 'self.value + other.value'), ('__sub__', 'self.value - other.value'), ('__rsub__', 'other.value - self.value')):
            f, b = method(tree, name)
            if len(b) != 4 or ast.unparse(b[0]) != 'other, mv = self._checkOther(other)' or not isinstance(b[1], ast.If) or ast.unparse(b[1].test) != 'not mv' \
                    or ast.unparse(b[2]) != f'newValue = {expr}' or ast.unparse(b[3]) != 'return self._newMV(newValue)':
                raise Refuse(f"{name}: frame")
            inner = b[1].body
            if len(inner) != 1 or not isinstance(inner[0], ast.If) or ast.unparse(inner[0].test) != 'isinstance(other, np.ndarray)' or b[1].orelse or inner[0].orelse:
                raise Refuse(f"{name}: ndarray branch")
            rows.append((name, 'array', expr.replace('.value', '').replace(' ', ''), 'coerce'))
        if aliases.get('__radd__') != '__add__':
            raise Refuse("__radd__ is not __add__")
        rows.append(('__radd__', 'alias', '__add__', 'coerce'))
        f, b = method(tree, 'lc')
        if [ast.unparse(z) for z in b] != ['other, mv = self._checkOther(other, coerce=True)', 'newValue = self.layout.lcmt_func(self.value, other.value)',
                                          'return self._newMV(newValue)']:
            raise Refuse(f"lc: {[ast.unparse(z) for z in b]}")
        rows.append(('lc', 'lcmt_func', 'self,other', 'coerce'))
        f, b = method(tree, '__lshift__')
        if [ast.unparse(z) for z in b] != ['return self.lc(other)']:
            raise Refuse("__lshift__ is not self.lc(other)")
        rows.append(('__lshift__', 'alias', 'lc', 'coerce'))
        f, b = method(tree, 'vee')
        if [ast.unparse(z) for z in b] != ['return self.layout.MultiVector(value=self.layout.vee_func(self.value, other.value))']:
            raise Refuse("vee frame")
        rows.append(('vee', 'vee_func', 'self,other', 'mv-only'))
        f, b = method(tree, '__and__')
        if [ast.unparse(z) for z in b] != ['return self.vee(other)']:
            raise Refuse("__and__ is not self.vee(other)")
        rows.append(('__and__', 'alias', 'vee', 'mv-only'))
        rows = sorted(rows)
        return ("def operator_table : List (String × String × String × String) := ["
                + ", ".join(f'("{a}", "{b_}", "{c}", "{d}")' for a, b_, c, d in rows) + "]\n")
    emit('meth_operators', g_operators, "theorem meth_operators_eq : GenMeth.operator_table = Model.operatorTable := by decide\n")

    out.append("end GenMeth\n\n")
    names = {}
    for name, t in thms:
        out.append(t + "\n")
    for name, t in thms:
        tn = t.split()[1]
        names[name] = tn
        out.append(f"#print axioms {tn}\n")
    if '--status' in sys.argv:
        sys.stderr.write(json.dumps(dict(status=status, theorems=names)))
    sys.stdout.write("".join(out))


if __name__ == '__main__':
    main()
