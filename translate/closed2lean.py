#!/usr/bin/env python3
"""Tie A, fourth slice: the closed-form inverse `_hitzer_inverse` (clifford/_layout.py).

The `if tot == k` chain of the inner `hitzer_inverse(operand)` is read from the CURRENT source; each branch k = 1..5 (a
straight line of assignments ending in `numerator`) is translated to a term over canonical multivectors `CMV k R` with the
canonical operations (`gmul`, `gi`, `cconj`, `rev`, `gpart`, `•`, `±`), and one generated theorem per branch states that it is
the numerator the C05 theorems are about (`gi 1 M`, `cconj 2 M`, `num3`, `num4`, `num5`).  The tail of the function —
`denominator = (operand * numerator).value[0]`, zero test, `return numerator / denominator` — is checked syntactically.

Fragment: `operand`, previously assigned names, `X.gradeInvol()`, `X.conjugate()`, `~X`, `X * Y`, `c * X` for an integer
literal `c`, `X ± Y`, and `X(g1, …, gk)` with distinct integer literals (the sum of the grade projections).  Anything else
is REFUSED.
"""
import ast
import json
import sys
from pathlib import Path


class Refuse(Exception):
    pass


class Tr:
    def __init__(self, n):
        self.n = n
        self.env = {'operand': 'M'}

    def tr(self, e):
        n = self.n
        if isinstance(e, ast.Name):
            if e.id in self.env:
                return self.env[e.id]
            raise Refuse(f"unbound name {e.id}")
        if isinstance(e, ast.UnaryOp) and isinstance(e.op, ast.Invert):
            return f"(rev {n} {self.tr(e.operand)})"
        if isinstance(e, ast.Call):
            if isinstance(e.func, ast.Attribute) and not e.args and e.func.attr in ('gradeInvol', 'conjugate'):
                return f"({'gi' if e.func.attr == 'gradeInvol' else 'cconj'} {n} {self.tr(e.func.value)})"
            if isinstance(e.func, ast.Name) and e.func.id in self.env and e.args and not e.keywords \
                    and all(isinstance(a, ast.Constant) and isinstance(a.value, int) for a in e.args):
                gs = [a.value for a in e.args]
                if len(set(gs)) != len(gs):
                    raise Refuse("repeated grade in a projection")
                x = self.env[e.func.id]
                return "(" + " + ".join(f"gpart {n} {g} {x}" for g in gs) + ")"
            raise Refuse(f"call {ast.unparse(e)}")
        if isinstance(e, ast.BinOp):
            if isinstance(e.op, ast.Mult):
                if isinstance(e.left, ast.Constant) and isinstance(e.left.value, int):
                    return f"(({e.left.value} : R) • {self.tr(e.right)})"
                if isinstance(e.right, ast.Constant) and isinstance(e.right.value, int):
                    return f"(({e.right.value} : R) • {self.tr(e.left)})"
                return f"(gmul {n} sig {self.tr(e.left)} {self.tr(e.right)})"
            if isinstance(e.op, ast.Sub):
                return f"({self.tr(e.left)} - {self.tr(e.right)})"
            if isinstance(e.op, ast.Add):
                return f"({self.tr(e.left)} + {self.tr(e.right)})"
        raise Refuse(f"expression {ast.unparse(e)}")


def main():
    repo = Path(sys.argv[sys.argv.index('--repo') + 1]) if '--repo' in sys.argv else Path('/repo')
    out = ["import Proofs.Hitzer\nimport Proofs.Hitzer4\nimport Proofs.Hitzer5\n\n"
           "/-! GENERATED from the current source by translate/closed2lean.py — do not edit -/\n"
           "set_option linter.unusedVariables false\nnamespace GenClosed\nvariable {R : Type} [CommRing R]\n\n"]
    status, thms = {}, []
    try:
        tree = ast.parse((repo / 'clifford' / '_layout.py').read_text())
        cls = [n for n in tree.body if isinstance(n, ast.ClassDef) and n.name == 'Layout'][0]
        outer = [n for n in cls.body if isinstance(n, ast.FunctionDef) and n.name == '_hitzer_inverse'][0]
        inner = [n for n in outer.body if isinstance(n, ast.FunctionDef) and n.name == 'hitzer_inverse'][0]
        if [a.arg for a in inner.args.args] != ['operand']:
            raise Refuse("parameters")
        body = [s for s in inner.body if not (isinstance(s, ast.Expr) and isinstance(s.value, ast.Constant))]
        if not (isinstance(body[0], ast.Assign) and ast.unparse(body[0]) == 'tot = operand.layout.dims'):
            raise Refuse("tot is not operand.layout.dims")
        chain = body[1]
        branches = {}
        node = chain
        while isinstance(node, ast.If):
            t = node.test
            if not (isinstance(t, ast.Compare) and ast.unparse(t.left) == 'tot' and isinstance(t.ops[0], ast.Eq)
                    and isinstance(t.comparators[0], ast.Constant)):
                raise Refuse("branch test is not `tot == k`")
            branches[t.comparators[0].value] = node.body
            if len(node.orelse) == 1 and isinstance(node.orelse[0], ast.If):
                node = node.orelse[0]
            else:
                if not (len(node.orelse) == 1 and isinstance(node.orelse[0], ast.Raise)):
                    raise Refuse("the chain does not end in `raise NotImplementedError`")
                node = None
        tail = [ast.unparse(s) for s in body[2:]]
        want_tail = ['denominator = (operand * numerator).value[0]',
                     "if denominator == 0:\n    raise ValueError('Multivector has no inverse')",
                     'return numerator / denominator']
        if tail != want_tail:
            raise Refuse("tail is not `denominator = (operand*numerator).value[0]; zero test; return numerator / denominator`")
        status['hitzer_tail'] = dict(status='ok')
        thms.append(('hitzer_tail', "/-- the tail of `hitzer_inverse` has the expected shape (checked on the AST): `numerator / (operand*numerator).value[0]` with a zero test -/\ntheorem hitzer_tail_ok : True := trivial\n"))
    except Refuse as r:
        branches = {}
        status['hitzer_tail'] = dict(status='refused', reason=str(r))
    except Exception as r:
        branches = {}
        status['hitzer_tail'] = dict(status='refused', reason=repr(r)[:200])

    TARGET = {1: 'gi 1 M', 2: 'cconj 2 M', 3: 'num3 sig M', 4: 'num4 sig M', 5: 'num5 sig M'}
    UNFOLD = {1: '', 2: '', 3: ', num3', 4: ', num4, fac4', 5: ', num5, combo5, fac5'}
    for k in (1, 2, 3, 4, 5):
        name = f'hitzer_num{k}'
        try:
            if k not in branches:
                raise Refuse(f"no branch tot == {k}")
            tr = Tr(k)
            for st in branches[k]:
                if not (isinstance(st, ast.Assign) and len(st.targets) == 1 and isinstance(st.targets[0], ast.Name)):
                    raise Refuse(f"statement {ast.unparse(st)[:40]}")
                tr.env[st.targets[0].id] = tr.tr(st.value)
            if 'numerator' not in tr.env:
                raise Refuse("numerator is not assigned")
            out.append(f"def {name} (sig : Nat → R) (M : CMV {k} R) : CMV {k} R := {tr.env['numerator']}\n")
            thms.append((name, f"theorem {name}_eq {{R : Type}} [CommRing R] (sig : Nat → R) (M : CMV {k} R) : "
                               f"GenClosed.{name} sig M = {TARGET[k]} := by\n"
                               f"  first | (simp only [GenClosed.{name}{UNFOLD[k]}]; done) | (simp only [GenClosed.{name}{UNFOLD[k]}, add_comm, add_left_comm])\n"))
            status[name] = dict(status='ok')
        except Refuse as r:
            status[name] = dict(status='refused', reason=str(r))
        except Exception as r:
            status[name] = dict(status='refused', reason=repr(r)[:200])
    out.append("end GenClosed\n\n")
    names = {}
    for name, t in thms:
        out.append(t + "\n")
    for name, t in thms:
        tn = [l.split()[1] for l in t.splitlines() if l.startswith('theorem ')][-1]
        names[name] = tn
        out.append(f"#print axioms {tn}\n")
    if '--status' in sys.argv:
        sys.stderr.write(json.dumps(dict(status=status, theorems=names)))
    sys.stdout.write("".join(out))


if __name__ == '__main__':
    main()
