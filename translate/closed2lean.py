#!/usr/bin/env python3
"""Tie A, fourth slice: the closed-form inverse `_hitzer_inverse` (clifford/_layout.py).

The `if tot == k` chain of the inner `hitzer_inverse(operand)` is read from the CURRENT source; each branch k = 1..5 (a
straight line of assignments ending in `numerator`) is translated to a term over canonical multivectors `CMV k R` with the
canonical operations (`gmul`, `gi`, `cconj`, `rev`, `gpart`, `•`, `±`), and one generated theorem per branch states that it is
the numerator the C05 theorems are about (`gi 1 M`, `cconj 2 M`, `num3`, `num4`, `num5`).  The tail of the function —
`denominator = (operand * numerator).value[0]`, zero test, `return numerator / denominator` — is checked syntactically.

Fragment: `operand`, previously assigned names, `X.gradeInvol()`, `X.conjugate()`, `~X`, `X * Y`, `c * X` for an integer
literal `c`, `X ± Y`, and `X(g1, …, gk)` with distinct integer literals (the sum of the grade projections).  Anything else
is REFUSED.
"""
import ast
import json
import sys
from pathlib import Path


class Refuse(Exception):
    pass


class Tr:
    def __init__(self, n):
        self.n = n
        self.env = {'operand': 'M'}

    def tr(self, e):
        n = self.n
        if isinstance(e, ast.Name):
            if e.id in self.env:
                return self.env[e.id]
            raise Refuse(f"unbound name {e.id}")
        if isinstance(e, ast.UnaryOp) and isinstance(e.op, ast.Invert):
            return f"(rev {n} {self.tr(e.operand)})"
        if isinstance(e, ast.Call):
            if isinstance(e.func, ast.Attribute) and not e.args and e.func.attr in ('gradeInvol', 'conjugate'):
                return f"({'gi' if e.func.attr == 'gradeInvol' else 'cconj'} {n} {self.tr(e.func.value)})"
            if isinstance(e.func, ast.Name) and e.func.id in self.env and e.args and not e.keywords \
                    and all(isinstance(a, ast.Constant) and isinstance(a.value, int) for a in e.args):
                gs = [a.value for a in e.args]
                if len(set(gs)) != len(gs):
                    raise Refuse("repeated grade in a projection")
                x = self.env[e.func.id]
                return "(" + " + ".join(f"gpart {n} {g} {x}" for g in gs) + ")"
            raise Refuse(f"call {ast.unparse(e)}")
        if isinstance(e, ast.BinOp):
            if isinstance(e.op, ast.Mult):
                if isinstance(e.left, ast.Constant) and isinstance(e.left.value, int):
                    return f"(({e.left.value} : R) • {self.tr(e.right)})"
                if isinstance(e.right, ast.Constant) and isinstance(e.right.value, int):
                    return f"(({e.right.value} : R) • {self.tr(e.left)})"
                return f"(gmul {n} sig {self.tr(e.left)} {self.tr(e.right)})"
            if isinstance(e.op, ast.Sub):
                return f"({self.tr(e.left)} - {self.tr(e.right)})"
            if isinstance(e.op, ast.Add):
                return f"({self.tr(e.left)} + {self.tr(e.right)})"
        raise Refuse(f"expression {ast.unparse(e)}")


class ShTr:
    """typed expressions of the loop body of `shirokov_inverse`: kinds 'mv' (multivector), 'sc' (coefficient), 'nat' (N, k)"""
    def __init__(self):
        self.env = {'U': ('mv', 'U'), 'N': ('nat', 'N'), 'k': ('nat', 'k')}

    def sc(self, e):
        kind, t = self.tr(e)
        if kind == 'nat':
            return f"(({t} : ℕ) : K)"
        if kind != 'sc':
            raise Refuse(f"{ast.unparse(e)} is not a coefficient")
        return t

    def tr(self, e):
        if isinstance(e, ast.Name):
            if e.id in self.env:
                return self.env[e.id]
            raise Refuse(f"unbound name {e.id}")
        if isinstance(e, ast.Subscript) and isinstance(e.value, ast.Attribute) and e.value.attr == 'value' \
                and isinstance(e.slice, ast.Constant) and e.slice.value == 0:
            kind, t = self.tr(e.value.value)
            if kind != 'mv':
                raise Refuse(".value[0] of a non-multivector")
            return ('sc', f"({t} fzero)")
        if isinstance(e, ast.BinOp):
            if isinstance(e.op, ast.Div):
                return ('sc', f"({self.sc(e.left)} / {self.sc(e.right)})")
            lk, lt = self.tr(e.left)
            if isinstance(e.op, ast.Mult):
                if lk == 'mv' and isinstance(e.right, ast.Constant) and e.right.value == 1.0:
                    return ('mv', lt)                      # `U * 1.0`: the cast to float
                rk, rt = self.tr(e.right)
                if lk == 'mv' and rk == 'mv':
                    return ('mv', f"(gmul n sig {lt} {rt})")
                if lk != 'mv' and rk != 'mv':
                    return ('sc', f"({self.sc(e.left)} * {self.sc(e.right)})")
                raise Refuse(f"product {ast.unparse(e)}")
            if isinstance(e.op, ast.Sub):
                rk, rt = self.tr(e.right)
                if lk == 'mv' and rk == 'mv':
                    return ('mv', f"({lt} - {rt})")
                if lk == 'mv':
                    return ('mv', f"({lt} - {self.sc(e.right)} • one n)")
                raise Refuse(f"difference {ast.unparse(e)}")
        raise Refuse(f"expression {ast.unparse(e)}")


def shirokov(repo, status):
    """the loop of `_shirokov_inverse.shirokov_inverse(U)`: `Uk = U*1.0; for k in range(1, N): Ck = ..; adjU = ..; Uk = ..;` zero test;
    `return adjU / Uk.value[0]` — translated statement by statement into a fold over `k = 1 … N−1` with state `(Uk, adjU)`"""
    name = 'shirokov_loop'
    try:
        tree = ast.parse((repo / 'clifford' / '_layout.py').read_text())
        cls = [n for n in tree.body if isinstance(n, ast.ClassDef) and n.name == 'Layout'][0]
        outer = [n for n in cls.body if isinstance(n, ast.FunctionDef) and n.name == '_shirokov_inverse'][0]
        inner = [n for n in outer.body if isinstance(n, ast.FunctionDef) and n.name == 'shirokov_inverse'][0]
        if [a.arg for a in inner.args.args] != ['U']:
            raise Refuse("parameters")
        body = [s for s in inner.body if not (isinstance(s, ast.Expr) and isinstance(s.value, ast.Constant))]
        if len(body) != 4:
            raise Refuse("not `init; for; zero test; return`")
        init, loop, test, ret = body
        tr = ShTr()
        if not (isinstance(init, ast.Assign) and ast.unparse(init.targets[0]) == 'Uk'):
            raise Refuse("first statement does not assign Uk")
        k0, t0 = tr.tr(init.value)
        if k0 != 'mv':
            raise Refuse("Uk is not a multivector")
        if not (isinstance(loop, ast.For) and ast.unparse(loop.target) == 'k' and ast.unparse(loop.iter) == 'range(1, N)' and not loop.orelse):
            raise Refuse("loop is not `for k in range(1, N)`")
        tr.env['Uk'] = ('mv', 'st.1')
        assigned = []
        for st in loop.body:
            if not (isinstance(st, ast.Assign) and len(st.targets) == 1 and isinstance(st.targets[0], ast.Name)):
                raise Refuse(f"loop statement {ast.unparse(st)[:40]}")
            tr.env[st.targets[0].id] = tr.tr(st.value)
            assigned.append(st.targets[0].id)
        if 'adjU' not in assigned or assigned[-1] != 'Uk':
            raise Refuse("the loop body does not end by assigning Uk after adjU")
        if tr.env['adjU'][0] != 'mv' or tr.env['Uk'][0] != 'mv':
            raise Refuse("kinds")
        if ast.unparse(test) != "if Uk.value[0] == 0:\n    raise ValueError('Multivector has no inverse')":
            raise Refuse("zero test is not `if Uk.value[0] == 0: raise ValueError`")
        if ast.unparse(ret) != 'return adjU / Uk.value[0]':
            raise Refuse("return is not `adjU / Uk.value[0]`")
        d = (f"def {name} {{K : Type}} [Field K] (n : Nat) (sig : Nat → K) (U : CMV n K) (N : Nat) : CMV n K × CMV n K :=\n"
             f"  (List.range' 1 (N - 1)).foldl (fun st k => ({tr.env['Uk'][1]}, {tr.env['adjU'][1]})) ({t0}, 0)\n")
        t = (f"/-- the loop of `shirokov_inverse` as the source has it now is the recursion `C05.shirokov_scalar_n1…n3` / `shirokov_correct_n1…n3` are about -/\n"
             f"theorem {name}_eq {{K : Type}} [Field K] (n : Nat) (sig : Nat → K) (U : CMV n K) (N : Nat) : GenClosed.{name} n sig U N = shLoop n sig U N := by\n"
             f"  unfold GenClosed.{name} shLoop shStep\n"
             f"  first\n  | rfl\n  | (congr 1; funext st k; simp only [Prod.mk.injEq]; constructor <;> (first | rfl | (congr 1; funext c; simp only [Pi.sub_apply, Pi.smul_apply, smul_eq_mul]; ring) | (funext c; simp only [Pi.sub_apply, Pi.smul_apply, smul_eq_mul]; ring)))\n")
        status[name] = dict(status='ok')
        return d, t
    except Refuse as r:
        status[name] = dict(status='refused', reason=str(r))
    except Exception as r:
        status[name] = dict(status='refused', reason=repr(r)[:200])
    return None, None


def main():
    repo = Path(sys.argv[sys.argv.index('--repo') + 1]) if '--repo' in sys.argv else Path('/repo')
    out = ["import Proofs.Hitzer\nimport Proofs.Hitzer4\nimport Proofs.Hitzer5\nimport Proofs.Shirokov\n\n"
           "/-! GENERATED from the current source by translate/closed2lean.py — do not edit -/\n"
           "set_option linter.unusedVariables false\nnamespace GenClosed\nvariable {R : Type} [CommRing R]\n\n"]
    status, thms = {}, []
    try:
        tree = ast.parse((repo / 'clifford' / '_layout.py').read_text())
        cls = [n for n in tree.body if isinstance(n, ast.ClassDef) and n.name == 'Layout'][0]
        outer = [n for n in cls.body if isinstance(n, ast.FunctionDef) and n.name == '_hitzer_inverse'][0]
        inner = [n for n in outer.body if isinstance(n, ast.FunctionDef) and n.name == 'hitzer_inverse'][0]
        if [a.arg for a in inner.args.args] != ['operand']:
            raise Refuse("parameters")
        body = [s for s in inner.body if not (isinstance(s, ast.Expr) and isinstance(s.value, ast.Constant))]
        if not (isinstance(body[0], ast.Assign) and ast.unparse(body[0]) == 'tot = operand.layout.dims'):
            raise Refuse("tot is not operand.layout.dims")
        chain = body[1]
        branches = {}
        node = chain
        while isinstance(node, ast.If):
            t = node.test
            if not (isinstance(t, ast.Compare) and ast.unparse(t.left) == 'tot' and isinstance(t.ops[0], ast.Eq)
                    and isinstance(t.comparators[0], ast.Constant)):
                raise Refuse("branch test is not `tot == k`")
            branches[t.comparators[0].value] = node.body
            if len(node.orelse) == 1 and isinstance(node.orelse[0], ast.If):
                node = node.orelse[0]
            else:
                if not (len(node.orelse) == 1 and isinstance(node.orelse[0], ast.Raise)):
                    raise Refuse("the chain does not end in `raise NotImplementedError`")
                node = None
        tail = [ast.unparse(s) for s in body[2:]]
        want_tail = ['denominator = (operand * numerator).value[0]',
                     "if denominator == 0:\n    raise ValueError('Multivector has no inverse')",
                     'return numerator / denominator']
        if tail != want_tail:
            raise Refuse("tail is not `denominator = (operand*numerator).value[0]; zero test; return numerator / denominator`")
        status['hitzer_tail'] = dict(status='ok')
        thms.append(('hitzer_tail', "/-- the tail of `hitzer_inverse` has the expected shape (checked on the AST): `numerator / (operand*numerator).value[0]` with a zero test -/\ntheorem hitzer_tail_ok : True := trivial\n"))
    except Refuse as r:
        branches = {}
        status['hitzer_tail'] = dict(status='refused', reason=str(r))
    except Exception as r:
        branches = {}
        status['hitzer_tail'] = dict(status='refused', reason=repr(r)[:200])

    TARGET = {1: 'gi 1 M', 2: 'cconj 2 M', 3: 'num3 sig M', 4: 'num4 sig M', 5: 'num5 sig M'}
    UNFOLD = {1: '', 2: '', 3: ', num3', 4: ', num4, fac4', 5: ', num5, combo5, fac5'}
    for k in (1, 2, 3, 4, 5):
        name = f'hitzer_num{k}'
        try:
            if k not in branches:
                raise Refuse(f"no branch tot == {k}")
            tr = Tr(k)
            for st in branches[k]:
                if not (isinstance(st, ast.Assign) and len(st.targets) == 1 and isinstance(st.targets[0], ast.Name)):
                    raise Refuse(f"statement {ast.unparse(st)[:40]}")
                tr.env[st.targets[0].id] = tr.tr(st.value)
            if 'numerator' not in tr.env:
                raise Refuse("numerator is not assigned")
            out.append(f"def {name} (sig : Nat → R) (M : CMV {k} R) : CMV {k} R := {tr.env['numerator']}\n")
            thms.append((name, f"theorem {name}_eq {{R : Type}} [CommRing R] (sig : Nat → R) (M : CMV {k} R) : "
                               f"GenClosed.{name} sig M = {TARGET[k]} := by\n"
                               f"  first | (simp only [GenClosed.{name}{UNFOLD[k]}]; done) | (simp only [GenClosed.{name}{UNFOLD[k]}, add_comm, add_left_comm])\n"))
            status[name] = dict(status='ok')
        except Refuse as r:
            status[name] = dict(status='refused', reason=str(r))
        except Exception as r:
            status[name] = dict(status='refused', reason=repr(r)[:200])
    shir_def, shir_thm = shirokov(repo, status)
    if shir_def:
        out.append(shir_def)
        thms.append(('shirokov_loop', shir_thm))
    out.append("end GenClosed\n\n")
    names = {}
    for name, t in thms:
        out.append(t + "\n")
    for name, t in thms:
        tn = [l.split()[1] for l in t.splitlines() if l.startswith('theorem ')][-1]
        names[name] = tn
        out.append(f"#print axioms {tn}\n")
    if '--status' in sys.argv:
        sys.stderr.write(json.dumps(dict(status=status, theorems=names)))
    sys.stdout.write("".join(out))


if __name__ == '__main__':
    main()
