#!/usr/bin/env python3
"""Tie A: the printer `MultiVector.__str__` (clifford/_multivector.py).

The loop `for grade, name, coeff in zip(grades, names, value)` is read statement by statement from the CURRENT source: the two
separator tuples chosen by `if s:`, the `abs(coeff) < eps: continue` guard, the sign / separator selection `seps[i]`, the
dtype branch (`sign*np.round(coeff, p)` for inexact dtypes, `sign*coeff` otherwise), the two format strings, and the final
`return s if s else '0'`.  String literals become token lists (' ' space, '+' / '-' signs, '(' ')' '^', a digit string a coefficient);
`'%s…' % (…)` becomes the concatenation of its pieces.  The generated `GenPrint.strStep` / `strFinal` are proved equal to
`Text.strStep` / `Text.strFinal`, the code-shaped loop that `Text.strLoop_eq_printToks` proves to print exactly the token
stream of the round-trip theorem.  Integer instance: `abs(coeff) < eps` is `coeff = 0` and the non-inexact branch is taken
(the inexact branch is checked for shape only: rounding is outside every theorem).  Anything else is REFUSED.
"""
import ast
import json
import sys
from pathlib import Path


class Refuse(Exception):
    pass


CH = {' ': '.space', '+': '.sign 1', '-': '.sign (-1)', '(': '.lparen', ')': '.rparen', '^': '.wedge'}


def lit(sv):
    """a string literal as a token list"""
    toks, i = [], 0
    while i < len(sv):
        c = sv[i]
        if c.isdigit():
            j = i
            while j < len(sv) and sv[j].isdigit():
                j += 1
            toks.append(f".coeff {int(sv[i:j])}")
            i = j
            continue
        if c not in CH:
            raise Refuse(f"character {c!r} in a string literal")
        toks.append(CH[c])
        i += 1
    return "[" + ", ".join(toks) + "]"


def const_str(e):
    if isinstance(e, ast.Constant) and isinstance(e.value, str):
        return e.value
    raise Refuse(f"{ast.unparse(e)} is not a string literal")


def seps_of(stmts):
    if not (len(stmts) == 1 and isinstance(stmts[0], ast.Assign) and ast.unparse(stmts[0].targets[0]) == 'seps'
            and isinstance(stmts[0].value, ast.Tuple) and len(stmts[0].value.elts) == 2):
        raise Refuse("`seps = (a, b)` expected")
    a, b = stmts[0].value.elts
    return f"({lit(const_str(a))}, {lit(const_str(b))})"


def sep_sign(stmts):
    """`sep = seps[i]; sign = ±1` → (i, sign)"""
    d = {}
    for st in stmts:
        if not (isinstance(st, ast.Assign) and len(st.targets) == 1 and isinstance(st.targets[0], ast.Name)):
            raise Refuse(f"statement {ast.unparse(st)[:40]}")
        d[st.targets[0].id] = st.value
    if set(d) != {'sep', 'sign'}:
        raise Refuse("`sep = seps[i]; sign = ±1` expected")
    sp = d['sep']
    if not (isinstance(sp, ast.Subscript) and ast.unparse(sp.value) == 'seps' and isinstance(sp.slice, ast.Constant) and sp.slice.value in (0, 1)):
        raise Refuse("sep is not seps[0] / seps[1]")
    try:
        sg = ast.literal_eval(d['sign'])
    except Exception:
        raise Refuse("sign is not a literal")
    if sg not in (1, -1):
        raise Refuse("sign is not ±1")
    return sp.slice.value, sg


def fmt(e, env):
    """`'…%s…' % (a, b, …)` as a concatenation"""
    if not (isinstance(e, ast.BinOp) and isinstance(e.op, ast.Mod) and isinstance(e.right, ast.Tuple)):
        raise Refuse(f"{ast.unparse(e)[:50]} is not a %-format")
    f = const_str(e.left)
    parts = f.split('%s')
    args = e.right.elts
    if len(parts) != len(args) + 1 or '%' in "".join(parts):
        raise Refuse("format string and arguments do not match")
    pieces = []
    for i, a in enumerate(args):
        if parts[i]:
            pieces.append(lit(parts[i]))
        nm = ast.unparse(a)
        if nm not in env:
            raise Refuse(f"format argument {nm}")
        pieces.append(env[nm])
    if parts[-1]:
        pieces.append(lit(parts[-1]))
    return " ++ ".join(pieces)


def main():
    repo = Path(sys.argv[sys.argv.index('--repo') + 1]) if '--repo' in sys.argv else Path('/repo')
    out = ["import Model\n\n/-! GENERATED from the current source by translate/printer2lean.py — do not edit -/\n"
           "set_option linter.unusedVariables false\nnamespace GenPrint\nopen Text\n\n"]
    status, thms = {}, []
    try:
        tree = ast.parse((repo / 'clifford' / '_multivector.py').read_text())
        cls = [n for n in tree.body if isinstance(n, ast.ClassDef) and n.name == 'MultiVector'][0]
        fn = [n for n in cls.body if isinstance(n, ast.FunctionDef) and n.name == '__str__'][0]
        body = [s for s in fn.body if not (isinstance(s, ast.Expr) and isinstance(s.value, ast.Constant))]
        if len(body) != 4:
            raise Refuse("not `s = ''; p = …; for …; if s: return s else: return '0'`")
        s0, p0, loop, fin = body
        if ast.unparse(s0) != "s = ''":
            raise Refuse("s does not start empty")
        if ast.unparse(p0) != 'p = _settings._print_precision':
            raise Refuse("p is not the print precision")
        if not (isinstance(loop, ast.For) and ast.unparse(loop.target) == '(grade, name, coeff)'
                and ast.unparse(loop.iter) == 'zip(self.layout._basis_blade_order.grades, self.layout.names, self.value)' and not loop.orelse):
            raise Refuse("loop header is not `for grade, name, coeff in zip(grades, names, value)`")
        if len(loop.body) != 2:
            raise Refuse("loop body is not `if s: …` followed by the eps test")
        choose, guard = loop.body
        if not (isinstance(choose, ast.If) and ast.unparse(choose.test) == 's'):
            raise Refuse("first statement of the loop is not `if s:`")
        seps_then, seps_else = seps_of(choose.body), seps_of(choose.orelse)
        if not (isinstance(guard, ast.If) and ast.unparse(guard.test) == 'abs(coeff) < _settings._eps'
                and len(guard.body) == 1 and isinstance(guard.body[0], ast.Continue)):
            raise Refuse("guard is not `if abs(coeff) < _settings._eps: continue`")
        rest = guard.orelse
        if len(rest) != 3:
            raise Refuse("else branch is not sign selection, dtype branch, grade branch")
        sgn, dt, gr = rest
        if not (isinstance(sgn, ast.If) and ast.unparse(sgn.test) == 'coeff < 0'):
            raise Refuse("sign selection is not `if coeff < 0`")
        (i_neg, s_neg), (i_pos, s_pos) = sep_sign(sgn.body), sep_sign(sgn.orelse)
        if not (isinstance(dt, ast.If) and ast.unparse(dt.test) == 'np.issubdtype(self.value.dtype, np.inexact)'
                and [ast.unparse(x) for x in dt.body] == ['abs_coeff = sign * np.round(coeff, p)']):
            raise Refuse("dtype branch: inexact dtypes are not printed as `sign*np.round(coeff, p)`")
        if not (len(dt.orelse) == 1 and isinstance(dt.orelse[0], ast.Assign) and ast.unparse(dt.orelse[0].targets[0]) == 'abs_coeff'):
            raise Refuse("dtype branch: exact dtypes")
        ex = dt.orelse[0].value
        if not (isinstance(ex, ast.BinOp) and isinstance(ex.op, ast.Mult) and {ast.unparse(ex.left), ast.unparse(ex.right)} == {'sign', 'coeff'}):
            raise Refuse("abs_coeff is not sign*coeff for exact dtypes")
        abs_t = "sign * e.c" if ast.unparse(ex.left) == 'sign' else "e.c * sign"
        if not (isinstance(gr, ast.If) and isinstance(gr.test, ast.Compare) and ast.unparse(gr.test.left) == 'grade' and isinstance(gr.test.ops[0], ast.Eq)
                and isinstance(gr.test.comparators[0], ast.Constant) and isinstance(gr.test.comparators[0].value, int)):
            raise Refuse("grade branch is not `if grade == k`")
        gk = gr.test.comparators[0].value
        env = {'s': 's', 'sep': 'sep', 'abs_coeff': '[.coeff absCoeff]', 'name': '[.blade e.idx]'}

        def assign_s(stmts):
            if not (len(stmts) == 1 and isinstance(stmts[0], ast.Assign) and ast.unparse(stmts[0].targets[0]) == 's'):
                raise Refuse("grade branch does not assign s")
            return fmt(stmts[0].value, env)
        f_then, f_else = assign_s(gr.body), assign_s(gr.orelse)
        if not (isinstance(fin, ast.If) and ast.unparse(fin.test) == 's' and [ast.unparse(x) for x in fin.body] == ['return s']
                and len(fin.orelse) == 1 and isinstance(fin.orelse[0], ast.Return)):
            raise Refuse("last statement is not `if s: return s else: return <literal>`")
        zero = lit(const_str(fin.orelse[0].value))
        pick = {0: 'seps.1', 1: 'seps.2'}
        out.append("def strStep (s : List Tok) (e : Entry) : List Tok :=\n"
                   f"  let seps : List Tok × List Tok := if s ≠ [] then {seps_then} else {seps_else}\n"
                   "  if e.c = 0 then s\n  else\n"
                   f"    let sep := if e.c < 0 then {pick[i_neg]} else {pick[i_pos]}\n"
                   f"    let sign : Int := if e.c < 0 then {s_neg} else {s_pos}\n"
                   f"    let absCoeff := {abs_t}\n"
                   f"    if e.grade = {gk} then {f_then}\n    else {f_else}\n\n"
                   f"def strFinal (s : List Tok) : List Tok := if s ≠ [] then s else {zero}\n\n")
        thms.append(('printer_str',
                     "/-- the loop body and the last lines of `MultiVector.__str__` as the source has them now are the code-shaped printer of the model, which\n"
                     "`Text.strLoop_eq_printToks` proves to emit the token stream of the round-trip theorem -/\n"
                     "theorem printer_str_eq (s : List Text.Tok) (e : Text.Entry) : GenPrint.strStep s e = Text.strStep s e ∧ GenPrint.strFinal s = Text.strFinal s := by\n"
                     "  constructor\n"
                     "  · unfold GenPrint.strStep Text.strStep\n    first\n    | rfl\n    | (simp only [List.append_assoc, List.cons_append, List.nil_append]; done)\n"
                     "    | (simp only [List.append_assoc, List.cons_append, List.nil_append, Int.mul_comm (a := e.c)]; done)\n"
                     "  · rfl\n"))
        status['printer_str'] = dict(status='ok')
    except Refuse as r:
        status['printer_str'] = dict(status='refused', reason=str(r))
    except Exception as r:
        status['printer_str'] = dict(status='refused', reason=repr(r)[:200])
    out.append("end GenPrint\n\n")
    names = {}
    for name, t in thms:
        out.append(t + "\n")
        tn = [l.split()[1] for l in t.splitlines() if l.startswith('theorem ')][-1]
        names[name] = tn
        out.append(f"#print axioms {tn}\n")
    if '--status' in sys.argv:
        sys.stderr.write(json.dumps(dict(status=status, theorems=names)))
    sys.stdout.write("".join(out))


if __name__ == '__main__':
    main()
