#!/usr/bin/env python3
"""Tie A, second slice: the straight-line *multivector* expressions of the conformal layers.

Reads the CURRENT source (`_conformal_layout.py`, `cga.py`, `tools/classify.py`, `tools/g3c/__init__.py`) with `ast` and
emits, for each target expression, a Lean definition over an arbitrary ring `A` with a ℚ-algebra structure, together with one
generated theorem stating that the definition equals the hand-written term the property theorems are about
(`Conf.up`, `Conf.transl`, `Classify.round0`, …).  The theorems are closed by fixed *semantic* tactics (normal-ordering by the
generator relations + `module`), so reordering a sum or writing `x*x` for `x**2` still checks, while a changed coefficient,
sign, operand order or operator does not.

The fragment (everything else is REFUSED and reported as a broken tie):
  numbers, names bound in the target's environment, `self.<attr>` / `self.layout.<attr>` / `self.cga.<attr>` for the conformal
  constants, `+ - *` , `/` by a scalar, `**2`, unary `-`, `~` (reversion, pushed structurally to the leaves), `.real` on
  scalars, `s ^ M` (scaling), and `^` / `|` between a *vector* and a homogeneous element, written by the half-sum formulas

      v ^ X = ½(vX + σ Xv)    X ^ v = ½(Xv + σ vX)    v | X = ½(vX − σ Xv)    X | v = ½(Xv − σ vX),    σ = (−1)^grade(X)

  which are theorems about the coded tables (Proofs/Fund.lean).  Calls named in the target's `opaque` map (e.g. `math.cosh(..)`,
  `self.cga.straight_up(arg)`) become parameters.
"""
import ast
import json
import sys
from fractions import Fraction
from pathlib import Path


class Refuse(Exception):
    pass


class T:
    """a translated term: lean text, kind 's' (rational scalar) or 'm' (multivector), vec = known to be a vector,
    sign = Lean ℚ-term for (−1)^grade when homogeneous (None otherwise)"""
    def __init__(self, lean, kind, vec=False, sign=None):
        self.lean, self.kind, self.vec, self.sign = lean, kind, vec, sign


def neg_sign(s):
    if s is None:
        return None
    return {'(1 : ℚ)': '(-1 : ℚ)', '(-1 : ℚ)': '(1 : ℚ)'}.get(s, s[2:-1] if s.startswith('(-') and s.endswith(')') else f'(-{s})')


def num(c):
    if isinstance(c, bool) or not isinstance(c, (int, float)):
        raise Refuse(f"constant {c!r}")
    f = Fraction(c).limit_denominator(10 ** 9) if isinstance(c, float) else Fraction(c)
    if isinstance(c, float) and float(f) != c:
        raise Refuse(f"float constant {c!r} is not a small rational")
    return f"({f.numerator}/{f.denominator} : ℚ)" if f.denominator != 1 else f"({f.numerator} : ℚ)"


class Tr:
    def __init__(self, env, opaque=None, attrs=None):
        self.env = dict(env)            # name -> T
        self.opaque = opaque or {}      # unparsed call text -> T
        self.attrs = attrs or {}        # attribute name -> T

    def half(self, a, b, sign, plus):
        op = '+' if plus else '-'
        return f"((1/2 : ℚ) • ({a} * {b} {op} {sign} • ({b} * {a})))"

    def rev(self, e):
        """reversion pushed to the leaves: ~(ab) = ~b ~a, vectors and scalars are fixed"""
        if isinstance(e, ast.BinOp) and isinstance(e.op, ast.Mult):
            l, r = self.tr(e.left), self.tr(e.right)
            if l.kind == 's' or r.kind == 's':
                return self.mul(self.rev(e.left) if l.kind == 'm' else l, self.rev(e.right) if r.kind == 'm' else r)
            return self.mul(self.rev(e.right), self.rev(e.left))
        if isinstance(e, ast.BinOp) and isinstance(e.op, (ast.Add, ast.Sub)):
            l = self.rev(e.left) if self.tr(e.left).kind == 'm' else self.tr(e.left)
            r = self.rev(e.right) if self.tr(e.right).kind == 'm' else self.tr(e.right)
            return self.addsub(l, r, isinstance(e.op, ast.Add))
        if isinstance(e, ast.BinOp) and isinstance(e.op, ast.Div):
            l, r = self.tr(e.left), self.tr(e.right)
            if r.kind != 's':
                raise Refuse("division by a multivector")
            return self.div(self.rev(e.left) if l.kind == 'm' else l, r)
        if isinstance(e, ast.UnaryOp) and isinstance(e.op, ast.USub):
            t = self.rev(e.operand)
            return T(f"(-{t.lean})", t.kind, t.vec, t.sign)
        t = self.tr(e)
        if t.kind == 's' or t.vec:
            return t
        key = ast.unparse(e)
        if ('~' + key) in self.opaque:
            return self.opaque['~' + key]
        raise Refuse(f"reverse of {key}")

    def mul(self, l, r):
        if l.kind == 's' and r.kind == 's':
            return T(f"({l.lean} * {r.lean})", 's')
        if l.kind == 's':
            return T(f"({l.lean} • {r.lean})", 'm', r.vec, r.sign)
        if r.kind == 's':
            return T(f"({r.lean} • {l.lean})", 'm', l.vec, l.sign)
        return T(f"({l.lean} * {r.lean})", 'm')

    def div(self, l, r):
        if r.kind != 's':
            raise Refuse("division by a multivector")
        if l.kind == 's':
            return T(f"({l.lean} / {r.lean})", 's')
        return T(f"((1 / {r.lean}) • {l.lean})", 'm', l.vec, l.sign)

    def addsub(self, l, r, plus):
        op = '+' if plus else '-'
        if l.kind == 's' and r.kind == 's':
            return T(f"({l.lean} {op} {r.lean})", 's')
        if l.kind == 's':
            l = T(f"({l.lean} • (1 : A))", 'm')
        if r.kind == 's':
            r = T(f"({r.lean} • (1 : A))", 'm')
        return T(f"({l.lean} {op} {r.lean})", 'm', l.vec and r.vec, l.sign if l.sign == r.sign else None)

    def tr(self, e):
        if isinstance(e, ast.Constant):
            return T(num(e.value), 's')
        if isinstance(e, ast.Name):
            if e.id in self.env:
                return self.env[e.id]
            raise Refuse(f"unbound name {e.id}")
        key = ast.unparse(e)
        if key in self.opaque:
            return self.opaque[key]
        if isinstance(e, ast.Attribute):
            if e.attr == 'real':
                t = self.tr(e.value)
                if t.kind != 's':
                    raise Refuse(".real of a multivector")
                return t
            if e.attr in self.attrs and isinstance(e.value, (ast.Name, ast.Attribute)):
                return self.attrs[e.attr]
            raise Refuse(f"attribute {key}")
        if isinstance(e, ast.UnaryOp):
            if isinstance(e.op, ast.USub):
                t = self.tr(e.operand)
                return T(f"(-{t.lean})", t.kind, t.vec, t.sign)
            if isinstance(e.op, ast.Invert):
                return self.rev(e.operand)
            raise Refuse("unary operator")
        if isinstance(e, ast.Call):
            # method gradeInvol() on a homogeneous element
            if isinstance(e.func, ast.Attribute) and e.func.attr == 'gradeInvol' and not e.args:
                t = self.tr(e.func.value)
                if t.kind != 'm' or t.sign is None:
                    raise Refuse("gradeInvol of a non-homogeneous element")
                return T(f"({t.sign} • {t.lean})", 'm', t.vec, t.sign)
            raise Refuse(f"call {key}")
        if isinstance(e, ast.BinOp):
            if isinstance(e.op, ast.Pow):
                if not (isinstance(e.right, ast.Constant) and e.right.value == 2):
                    raise Refuse("power other than 2")
                t = self.tr(e.left)
                return self.mul(t, t)
            l, r = self.tr(e.left), self.tr(e.right)
            if isinstance(e.op, ast.Mult):
                return self.mul(l, r)
            if isinstance(e.op, ast.Div):
                return self.div(l, r)
            if isinstance(e.op, (ast.Add, ast.Sub)):
                return self.addsub(l, r, isinstance(e.op, ast.Add))
            if isinstance(e.op, ast.BitXor):
                if l.kind == 's' or r.kind == 's':
                    return self.mul(l, r)
                if l.vec and r.sign is not None:
                    return T(self.half(l.lean, r.lean, r.sign, True), 'm', False, neg_sign(r.sign))
                if r.vec and l.sign is not None:
                    return T(self.half(l.lean, r.lean, l.sign, True), 'm', False, neg_sign(l.sign))
                raise Refuse("outer product without a vector operand and a homogeneous operand")
            if isinstance(e.op, ast.BitOr):
                if l.kind == 's' or r.kind == 's':
                    raise Refuse("inner product with a scalar")
                if l.vec and r.sign is not None:
                    return T(self.half(l.lean, r.lean, r.sign, False), 'm', False, neg_sign(r.sign))
                if r.vec and l.sign is not None:
                    return T(self.half(l.lean, r.lean, l.sign, False), 'm', False, neg_sign(l.sign))
                raise Refuse("inner product without a vector operand and a homogeneous operand")
            raise Refuse(f"operator {type(e.op).__name__}")
        raise Refuse(f"expression {type(e).__name__}")


def find(tree, func, cls=None):
    body = tree.body
    if cls:
        for n in body:
            if isinstance(n, ast.ClassDef) and n.name == cls:
                body = n.body
                break
        else:
            raise Refuse(f"class {cls} not found")
    hits = [n for n in body if isinstance(n, ast.FunctionDef) and n.name == func]
    if not hits:
        raise Refuse(f"function {func} not found")
    return hits[-1]


def last_return(fn):
    rets = [n for n in ast.walk(fn) if isinstance(n, ast.Return) and n.value is not None]
    if not rets:
        raise Refuse("no return")
    return max(rets, key=lambda n: n.lineno).value


def last_return_first(fn):
    rets = [n for n in ast.walk(fn) if isinstance(n, ast.Return) and n.value is not None]
    if not rets:
        raise Refuse("no return")
    return min(rets, key=lambda n: n.lineno).value


def assigns(fn, name):
    """all right-hand sides assigned to `name` (in source order)"""
    out = []
    for n in ast.walk(fn):
        if isinstance(n, ast.Assign) and len(n.targets) == 1:
            t = n.targets[0]
            if (isinstance(t, ast.Name) and t.id == name) or (isinstance(t, ast.Attribute) and t.attr == name):
                out.append((n.lineno, n.value))
    return [v for _, v in sorted(out, key=lambda p: p[0])]


V = lambda n: T(n, 'm', True, '(-1 : ℚ)')          # a vector parameter
M = lambda n: T(n, 'm')                        # an arbitrary multivector parameter
S = lambda n: T(n, 's')                        # a scalar parameter
H = lambda n, s: T(n, 'm', False, s)           # a homogeneous parameter with sign s

CONF_ATTRS = dict(einf=V('einf'), eo=V('eo'), ep=V('ep'), en=V('en'), E0=H('E0', '(1 : ℚ)'))

NF = "mv_nf"


def main():
    repo = Path(sys.argv[sys.argv.index('--repo') + 1]) if '--repo' in sys.argv else Path('/repo')
    trees = {}

    def tree(rel):
        if rel not in trees:
            trees[rel] = ast.parse((repo / rel).read_text())
        return trees[rel]

    out = ["import Proofs.Conf2\nimport Proofs.CgaObj\nimport Proofs.Classify\n\n"
           "/-! GENERATED from the current source by translate/mv2lean.py — do not edit -/\n"
           "set_option linter.unusedSimpArgs false\nset_option linter.unusedVariables false\nset_option linter.unusedSectionVars false\n"
           "/-- normalise products and scalar actions (no relations) -/\nmacro \"mv_nf\" : tactic => `(tactic| try simp only [mul_add, add_mul, mul_sub, sub_mul, smul_mul_assoc, mul_smul_comm, smul_smul, "
           "mul_assoc, mul_one, one_mul, neg_mul, mul_neg, neg_neg, smul_neg, neg_smul, smul_add, smul_sub, one_smul])\n"
           "/-- close by linear arithmetic over the module, whether or not the rewriting already closed the goal -/\n"
           "macro \"mv_fin\" : tactic => `(tactic| ((try module); done))\n"
           "namespace GenMV\nvariable {A : Type} [Ring A] [Algebra ℚ A]\n\n"]
    status, thms = {}, []

    def emit(name, gen, theorem):
        try:
            out.append(gen())
            thms.append((name, theorem))
            status[name] = dict(status='ok')
        except Refuse as r:
            status[name] = dict(status='refused', reason=str(r))
        except Exception as r:
            status[name] = dict(status='refused', reason=repr(r)[:200])

    CL = 'clifford/_conformal_layout.py'
    CGA = 'clifford/cga.py'
    CLS = 'clifford/tools/classify.py'
    G3C = 'clifford/tools/g3c/__init__.py'

    # ---- ConformalLayout.__init__: eo, einf, E0
    def gen_consts():
        f = find(tree(CL), '__init__', 'ConformalLayout')
        tr = Tr(dict(ep=V('ep'), en=V('en')))
        txt = []
        for nm in ('eo', 'einf', 'E0'):
            rhs = [v for v in assigns(f, nm) if not (isinstance(v, ast.Name) and v.id == nm)]
            if len(rhs) != 1:
                raise Refuse(f"{nm}: expected one defining assignment")
            t = tr.tr(rhs[0])
            if t.kind != 'm':
                raise Refuse(f"{nm} is not a multivector")
            txt.append(f"def c_{nm} (ep en : A) : A := {t.lean}\n")
            tr.env[nm] = T(f"(c_{nm} ep en)", 'm', nm != 'E0', '(-1 : ℚ)' if nm != 'E0' else '(1 : ℚ)')
        return "".join(txt)
    emit('conf_consts', gen_consts,
         "theorem conf_consts_eq (ep en : A) : GenMV.c_eo ep en = Conf.eo ep en ∧ GenMV.c_einf ep en = Conf.einf ep en "
         "∧ GenMV.c_E0 ep en = Conf.E0 ep en := by\n"
         "  refine ⟨?_, ?_, ?_⟩ <;> simp only [GenMV.c_eo, GenMV.c_einf, GenMV.c_E0, Conf.eo, Conf.einf, Conf.E0] <;> (mv_nf; mv_fin)\n")

    # ---- ConformalLayout.up
    def gen_up():
        f = find(tree(CL), 'up', 'ConformalLayout')
        t = Tr(dict(x=V('x')), attrs=CONF_ATTRS).tr(last_return(f))
        return f"def up (x einf eo : A) : A := {t.lean}\n"
    emit('conf_up', gen_up,
         "theorem conf_up_eq {x ep en : A} {q : ℚ} (r : Conf.Rel x ep en q) : "
         "GenMV.up x (Conf.einf ep en) (Conf.eo ep en) = Conf.up x ep en q := by\n"
         f"  simp only [GenMV.up, Conf.up, r.hx]\n  {NF}\n  mv_fin\n")

    # ---- ConformalLayout.homo: x / (-x | einf)[()]
    def gen_homo():
        f = find(tree(CL), 'homo', 'ConformalLayout')
        e = last_return(f)
        if not (isinstance(e, ast.BinOp) and isinstance(e.op, ast.Div) and isinstance(e.right, ast.Subscript)
                and isinstance(e.right.slice, ast.Tuple) and not e.right.slice.elts):
            raise Refuse("homo is not `x / (<mv>)[()]`")
        tr = Tr(dict(x=V('x')), attrs=CONF_ATTRS)
        den = tr.tr(e.right.value)
        tr2 = Tr(dict(x=V('x')), attrs=CONF_ATTRS, opaque={ast.unparse(e.right): S('d')})
        t = tr2.tr(e)
        return f"def homo_den (x einf : A) : A := {den.lean}\ndef homo (x : A) (d : ℚ) : A := {t.lean}\n"
    emit('conf_homo', gen_homo,
         "theorem conf_homo_eq {x ep en : A} {q : ℚ} (r : Conf.Rel x ep en q) (s : ℚ) : "
         "GenMV.homo_den (s • Conf.up x ep en q) (Conf.einf ep en) = s • (1 : A) ∧ ∀ (y : A) (d : ℚ), GenMV.homo y d = (1 / d) • y := by\n"
         "  refine ⟨?_, fun y d => rfl⟩\n  have h := Conf.homo_scale r s\n  simp only [GenMV.homo_den]\n  rw [← h]\n"
         f"  {NF}\n  mv_fin\n")

    # ---- ConformalLayout.down: (homo(x) ^ E0) * E0
    def gen_down():
        f = find(tree(CL), 'down', 'ConformalLayout')
        e = assigns(f, 'x_down')
        if len(e) != 1:
            raise Refuse("x_down")
        t = Tr({}, attrs=CONF_ATTRS, opaque={'self.homo(x)': V('h')}).tr(e[0])
        return f"def down (h E0 : A) : A := {t.lean}\n"
    emit('conf_down', gen_down,
         "theorem conf_down_eq {x ep en : A} {q : ℚ} (r : Conf.Rel x ep en q) : "
         "GenMV.down (Conf.up x ep en q) (Conf.E0 ep en) = x := by\n"
         "  have h := Conf.down_up r\n  simp only [GenMV.down, one_smul]\n  exact h\n")

    # ---- g3c.generate_translation_rotor: 1 + ninf * a / 2
    def gen_g3c_transl():
        f = find(tree(G3C), 'generate_translation_rotor')
        t = Tr(dict(euc_vector_a=V('a'), ninf=V('ninf'))).tr(last_return(f))
        return f"def g3c_translation_rotor (a ninf : A) : A := {t.lean}\n"
    emit('g3c_translation_rotor', gen_g3c_transl,
         "theorem g3c_translation_rotor_eq {a ep en : A} {q : ℚ} (r : Conf.Rel a ep en q) : GenMV.g3c_translation_rotor a (Conf.einf ep en) = Conf.transl a ep en := by\n"
         "  simp only [GenMV.g3c_translation_rotor, Conf.transl, Conf.einf]\n  try cga_nf r\n  mv_fin\n")

    # ---- g3c.generate_dilation_rotor: cosh(g/2) + sinh(g/2) * (ninf ^ no)
    def gen_g3c_dil():
        f = find(tree(G3C), 'generate_dilation_rotor')
        e = last_return(f)
        calls = {ast.unparse(c): c for c in ast.walk(e) if isinstance(c, ast.Call)}
        op = {}
        for k, c in calls.items():
            if isinstance(c.func, ast.Attribute) and c.func.attr == 'cosh' and ast.unparse(c.args[0]) == 'gamma / 2':
                op[k] = S('ch')
            elif isinstance(c.func, ast.Attribute) and c.func.attr == 'sinh' and ast.unparse(c.args[0]) == 'gamma / 2':
                op[k] = S('sh')
        g = assigns(f, 'gamma')
        if len(g) != 1 or ast.unparse(g[0]) != 'math.log(scale)':
            raise Refuse("gamma is not math.log(scale)")
        t = Tr(dict(ninf=V('ninf'), no=V('no')), opaque=op).tr(e)
        return f"def g3c_dilation_rotor (ch sh : ℚ) (ninf no : A) : A := {t.lean}\n"
    emit('g3c_dilation_rotor', gen_g3c_dil,
         "theorem g3c_dilation_rotor_eq {x ep en : A} {q : ℚ} (r : Conf.Rel x ep en q) (ch sh : ℚ) : "
         "GenMV.g3c_dilation_rotor ch sh (Conf.einf ep en) (-(Conf.eo ep en)) = Conf.dil ch (-sh) ep en := by\n"
         f"  simp only [GenMV.g3c_dilation_rotor, Conf.dil, Conf.E0]\n  {NF}\n  mv_fin\n")

    # ---- g3c.apply_rotor: rotor * (mv_in * ~rotor)
    def gen_apply_rotor():
        f = find(tree(G3C), 'apply_rotor')
        t = Tr(dict(mv_in=M('m'), rotor=M('R')), opaque={'~rotor': M('Rrev')}).tr(last_return(f))
        return f"def g3c_apply_rotor (m R Rrev : A) : A := {t.lean}\n"
    emit('g3c_apply_rotor', gen_apply_rotor,
         "theorem g3c_apply_rotor_eq (m R Rrev : A) : GenMV.g3c_apply_rotor m R Rrev = R * m * Rrev := by\n"
         "  simp only [GenMV.g3c_apply_rotor, mul_assoc]\n")

    # ---- g3c.rotor_between_planes: (1 - P2*P1).normal()
    def gen_rbp():
        f = find(tree(G3C), 'rotor_between_planes')
        e = last_return(f)
        if not (isinstance(e, ast.Call) and isinstance(e.func, ast.Attribute) and e.func.attr == 'normal' and not e.args):
            raise Refuse("not `<expr>.normal()`")
        core_ = e.func.value
        if isinstance(core_, ast.Name):
            # `C = <expr>; [guard for the null case]; return C.normal()`
            asg = [st for st in f.body if isinstance(st, ast.Assign) and len(st.targets) == 1 and ast.unparse(st.targets[0]) == core_.id]
            if len(asg) != 1:
                raise Refuse(f"{core_.id} is not assigned exactly once")
            core_ = asg[0].value
        t = Tr(dict(P1=M('P1'), P2=M('P2'))).tr(core_)
        return f"def g3c_rotor_between_planes_unnormalised (P1 P2 : A) : A := {t.lean}\n"
    emit('g3c_rotor_between_planes', gen_rbp,
         "theorem g3c_rotor_between_planes_eq (P1 P2 : A) : GenMV.g3c_rotor_between_planes_unnormalised P1 P2 = 1 + (-1 : ℚ) • (P2 * P1) := by\n"
         "  simp only [GenMV.g3c_rotor_between_planes_unnormalised, one_smul]\n  mv_fin\n")

    # ---- g3c.point_pair_to_end_points: F = T/beta; P = 0.5*F + 0.5; P~ = -0.5*F + 0.5; -(P~ (T|ninf)), P (T|ninf)
    def gen_ppep():
        f = find(tree(G3C), 'point_pair_to_end_points')
        b = assigns(f, 'beta')
        if len(b) != 1 or ast.unparse(b[0]) != 'np.sqrt(abs((T * T).value[0]))':
            raise Refuse("beta is not np.sqrt(abs((T * T).value[0]))")
        tr = Tr(dict(T=H('T', '(1 : ℚ)'), ninf=V('ninf'), beta=S('β')))
        for nm in ('F', 'P', 'P_twiddle'):
            rhs = assigns(f, nm)
            if len(rhs) != 1:
                raise Refuse(nm)
            t = tr.tr(rhs[0])
            tr.env[nm] = T(f"({t.lean})", 'm')
        outs = []
        for nm in ('A', 'B'):
            rhs = assigns(f, nm)
            if len(rhs) != 1 or not (isinstance(rhs[0], ast.Call) and ast.unparse(rhs[0].func) == 'normalise_n_minus_1' and len(rhs[0].args) == 1):
                raise Refuse(f"{nm} is not normalise_n_minus_1(<expr>)")
            outs.append(tr.tr(rhs[0].args[0]).lean)
        g = find(tree(G3C), 'normalise_n_minus_1')
        sc = assigns(g, 'scale')
        if len(sc) != 1 or ast.unparse(sc[0]) != '(mv | ninf).value[0]':
            raise Refuse("normalise_n_minus_1: scale is not (mv | ninf).value[0]")
        nrm = Tr(dict(mv=V('mv'), scale=S('sc'))).tr(last_return_first(g))
        return (f"def g3c_pp_end_A (T ninf : A) (β : ℚ) : A := {outs[0]}\ndef g3c_pp_end_B (T ninf : A) (β : ℚ) : A := {outs[1]}\n"
                f"def g3c_normalise (mv : A) (sc : ℚ) : A := {nrm.lean}\n")
    emit('g3c_point_pair_end_points', gen_ppep,
         "theorem g3c_point_pair_end_points_eq {P Q e : A} {γ : ℚ} (h : PointPair.Null2 P Q γ) (hγ : γ ≠ 0) "
         "(hPe : e * P = (-2 : ℚ) • (1 : A) - P * e) (hQe : e * Q = (-2 : ℚ) • (1 : A) - Q * e) : "
         "GenMV.g3c_pp_end_A (PointPair.pp P Q) e (-γ) = P ∧ GenMV.g3c_pp_end_B (PointPair.pp P Q) e (-γ) = Q "
         "∧ ∀ (mv : A) (sc : ℚ), GenMV.g3c_normalise mv sc = (-(1 / sc)) • mv := by\n"
         "  have hd := PointPair.pp_dot_einf h e hPe hQe\n  have he := PointPair.end_points h hγ\n"
         "  have hd' : (1/2 : ℚ) • (PointPair.pp P Q * e - (1 : ℚ) • (e * PointPair.pp P Q)) = Q - P := by rw [one_smul]; exact hd\n"
         "  have hg : (1 / -γ : ℚ) = -1 / γ := by rw [one_div, neg_div, one_div, inv_neg]\n"
         "  refine ⟨?_, ?_, ?_⟩\n"
         "  · simp only [GenMV.g3c_pp_end_A]; rw [hd', hg]; linear_combination (norm := skip) he.2; mv_nf; mv_fin\n"
         "  · simp only [GenMV.g3c_pp_end_B]; rw [hd', hg]; linear_combination (norm := skip) he.1; mv_nf; mv_fin\n"
         "  · intro mv sc; simp only [GenMV.g3c_normalise]; mv_fin\n")

    # ---- g3c.get_center_from_sphere: sphere * ninf * sphere
    def gen_centre():
        f = find(tree(G3C), 'get_center_from_sphere')
        rhs = assigns(f, 'center')
        if len(rhs) != 1:
            raise Refuse("center")
        t = Tr(dict(sphere=M('S'), ninf=V('ninf'))).tr(rhs[0])
        return f"def g3c_sphere_center (S ninf : A) : A := {t.lean}\n"
    emit('g3c_sphere_center', gen_centre,
         "theorem g3c_sphere_center_eq (S ninf : A) : GenMV.g3c_sphere_center S ninf = S * ninf * S := by\n"
         "  simp only [GenMV.g3c_sphere_center, mul_assoc]\n")

    # ---- cga.Dilation: e ** ((-log(arg)/2.) * E0): the exponent
    def gen_dilation():
        f = find(tree(CGA), '__init__', 'Dilation')
        rhs = [v for v in assigns(f, 'mv') if isinstance(v, ast.BinOp) and isinstance(v.op, ast.Pow)]
        if len(rhs) != 1 or ast.unparse(rhs[0].left) != 'e':
            raise Refuse("Dilation: expected one `e ** (...)`")
        t = Tr({}, attrs=CONF_ATTRS, opaque={'log(arg)': S('L')}).tr(rhs[0].right)
        return f"def cga_dilation_exponent (L : ℚ) (E0 : A) : A := {t.lean}\n"
    emit('cga_dilation', gen_dilation,
         "theorem cga_dilation_eq (L : ℚ) (E0 : A) : GenMV.cga_dilation_exponent L E0 = (-(L / 2)) • E0 := by\n"
         "  simp only [GenMV.cga_dilation_exponent]; mv_fin\n")

    # ---- cga.CGAThing.__call__ / inverted
    def gen_cga_call():
        f = find(tree(CGA), '__call__', 'CGAThing')
        rets = [n.value for n in ast.walk(f) if isinstance(n, ast.Return) and n.value is not None and not isinstance(n.value, ast.Call)]
        if len(rets) != 2:
            raise Refuse("expected two versor-product returns")
        tr = Tr(dict(other=M('X'), null=M('X')), opaque={'self.mv': M('R'), '~self.mv': M('Rrev')})
        a, b = tr.tr(rets[0]), tr.tr(rets[1])
        g = find(tree(CGA), 'inverted', 'CGAThing')
        c = Tr({}, attrs=CONF_ATTRS, opaque={'self.mv': M('R')}).tr(last_return(g))
        return (f"def cga_call_vector (R Rrev X : A) : A := {a.lean}\ndef cga_call (R Rrev X : A) : A := {b.lean}\n"
                f"def cga_inverted (ep R : A) : A := {c.lean}\n")
    emit('cga_call', gen_cga_call,
         "theorem cga_call_eq (R Rrev X ep : A) : GenMV.cga_call_vector R Rrev X = R * X * Rrev ∧ GenMV.cga_call R Rrev X = R * X * Rrev "
         "∧ GenMV.cga_inverted ep R = ep * R * ep := by\n"
         "  refine ⟨?_, ?_, ?_⟩ <;> simp only [GenMV.cga_call_vector, GenMV.cga_call, GenMV.cga_inverted, mul_assoc]\n")

    # ---- cga.Translation: 1 - straight_up(arg) * einf / 2.
    def gen_cga_transl():
        f = find(tree(CGA), '__init__', 'Translation')
        rhs = [v for v in assigns(f, 'mv') if 'straight_up' in ast.unparse(v)]
        if len(rhs) != 1:
            raise Refuse("Translation from a vector: expected one assignment using straight_up")
        t = Tr({}, attrs=CONF_ATTRS, opaque={'self.cga.straight_up(arg)': V('a')}).tr(rhs[0])
        return f"def cga_translation (a einf : A) : A := {t.lean}\n"
    emit('cga_translation', gen_cga_transl,
         "theorem cga_translation_eq {a ep en : A} {q : ℚ} (r : Conf.Rel a ep en q) : "
         "GenMV.cga_translation a (Conf.einf ep en) = Conf.transl a ep en := by\n"
         "  simp only [GenMV.cga_translation, Conf.transl, Conf.einf]\n  try cga_nf r\n  mv_fin\n")

    # ---- cga.Round: centre/radius form and Round.center
    def gen_cga_round():
        f = find(tree(CGA), '__init__', 'Round')
        rhs = assigns(f, 'dual_round')
        if len(rhs) != 1:
            raise Refuse("dual_round")
        t = Tr(dict(center=V('c'), radius=S('rad')), attrs=CONF_ATTRS).tr(rhs[0])
        g = find(tree(CGA), 'center', 'Round')
        c = Tr({}, attrs=CONF_ATTRS, opaque={'self.mv': M('mv')}).tr(last_return(g))
        return f"def cga_dual_round (c : A) (rad : ℚ) (einf : A) : A := {t.lean}\ndef cga_round_center (mv einf : A) : A := {c.lean}\n"
    emit('cga_round', gen_cga_round,
         "theorem cga_round_eq {x ep en : A} {q : ℚ} (rad : ℚ) (mv : A) : "
         "GenMV.cga_dual_round (Conf.up x ep en q) rad (Conf.einf ep en) = Conf.dualSphere x ep en q (rad * rad / 2) "
         "∧ GenMV.cga_round_center mv (Conf.einf ep en) = mv * Conf.einf ep en * mv := by\n"
         "  refine ⟨?_, ?_⟩\n  · simp only [GenMV.cga_dual_round, Conf.dualSphere]\n    " + NF + "\n    mv_fin\n"
         "  · simp only [GenMV.cga_round_center, mul_assoc]\n")

    # ---- classify.Blade._translate
    def gen_translate():
        f = find(tree(CLS), '_translate', 'Blade')
        v = assigns(f, 'versor')
        if len(v) != 1:
            raise Refuse("versor")
        tr = Tr(dict(t=V('t'), einf=V('einf'), x=M('X')))
        ver = tr.tr(v[0])
        rv = tr.rev(v[0])
        tr.env['versor'] = T('T', 'm')
        tr.opaque['~versor'] = T('Trev', 'm')
        body = tr.tr(last_return(f))
        return (f"def classify_versor (t einf : A) : A := {ver.lean}\ndef classify_versor_rev (t einf : A) : A := {rv.lean}\n"
                f"def classify_translate (T Trev X : A) : A := {body.lean}\n")
    emit('classify_translate', gen_translate,
         "theorem classify_translate_eq {t ep en : A} {q : ℚ} (r : Conf.Rel t ep en q) (X : A) : "
         "GenMV.classify_translate (GenMV.classify_versor t (Conf.einf ep en)) (GenMV.classify_versor_rev t (Conf.einf ep en)) X "
         "= Conf.transl t ep en * X * Conf.translRev t ep en := by\n"
         "  have h1 : GenMV.classify_versor t (Conf.einf ep en) = Conf.transl t ep en := by\n"
         "    simp only [GenMV.classify_versor, Conf.transl, Conf.einf]\n    try cga_nf r\n    mv_fin\n"
         "  have h2 : GenMV.classify_versor_rev t (Conf.einf ep en) = Conf.translRev t ep en := by\n"
         "    simp only [GenMV.classify_versor_rev, Conf.translRev, Conf.einf]\n    try cga_nf r\n    mv_fin\n"
         "  rw [h1, h2]; simp only [GenMV.classify_translate, mul_assoc]\n")

    # ---- classify: Direction.mv, Flat.mv, Round.mv (the blade at the origin, before _translate)
    def gen_blade_mvs():
        cenv = dict(attrs=dict(einf=V('einf'), eo=V('eo')))
        f = find(tree(CLS), 'mv', 'Direction')
        d = Tr({}, opaque={'self.direction': H('E', 'ε')}, **cenv).tr(last_return(f))
        f = find(tree(CLS), 'mv', 'Flat')
        e = last_return(f)
        if not (isinstance(e, ast.Call) and ast.unparse(e.func) == 'self._translate' and len(e.args) == 2 and ast.unparse(e.args[0]) == 'self.location'):
            raise Refuse("Flat.mv is not self._translate(self.location, <blade>)")
        fl = Tr({}, opaque={'self.direction': H('E', 'ε')}, **cenv).tr(e.args[1])
        f = find(tree(CLS), 'mv', 'Round')
        e = last_return(f)
        if not (isinstance(e, ast.Call) and ast.unparse(e.func) == 'self._translate' and len(e.args) == 2 and ast.unparse(e.args[0]) == 'self.location'):
            raise Refuse("Round.mv is not self._translate(self.location, <blade>)")
        rd = Tr({}, opaque={'self.direction': H('E', 'ε'), 'self.radius': S('rad')}, **cenv).tr(e.args[1])
        return (f"def classify_direction_mv (E einf : A) (ε : ℚ) : A := {d.lean}\n"
                f"def classify_flat_mv (E eo einf : A) (ε : ℚ) : A := {fl.lean}\n"
                f"def classify_round_mv (E eo einf : A) (ε rad : ℚ) : A := {rd.lean}\n")
    emit('classify_blade_mv', gen_blade_mvs,
         "theorem classify_blade_mv_eq {E ep en : A} {ε e2 : ℚ} (r : Classify.BRel E ep en ε e2) (hε : ε * ε = 1) (rad : ℚ) : "
         "GenMV.classify_direction_mv E (Conf.einf ep en) ε = Classify.wedgev E (Conf.einf ep en) ε "
         "∧ GenMV.classify_flat_mv E (Conf.eo ep en) (Conf.einf ep en) ε = Classify.flat0 E ep en ε "
         "∧ GenMV.classify_round_mv E (Conf.eo ep en) (Conf.einf ep en) ε rad = Classify.round0 E ep en ε (rad * rad / 2) := by\n"
         "  refine ⟨?_, ?_, ?_⟩\n"
         "  · simp only [GenMV.classify_direction_mv, Classify.wedgev]\n"
         "  · simp only [GenMV.classify_flat_mv, Classify.flat0, Classify.vwedge, Conf.einf, Conf.eo]\n"
         "    rcases Classify.eps_cases hε with h | h <;> subst h <;> · bl_nf r; module\n"
         "  · simp only [GenMV.classify_round_mv, Classify.round0, Classify.vwedge]\n    " + NF + "\n    mv_fin\n")

    # ---- classify(): the tests y = -einf | x, einf ^ x, x | -eo, rad2 = x * x.gradeInvol()
    def gen_classify_tests():
        f = find(tree(CLS), 'classify')
        tr = Tr(dict(x=H('X', 'σ'), einf=V('einf'), eo=V('eo')))
        y = assigns(f, 'y')
        if len(y) != 1:
            raise Refuse("y")
        ty = tr.tr(y[0])
        tests = [n.test for n in ast.walk(f) if isinstance(n, ast.If) and ast.unparse(n.test) == 'einf ^ x == 0']
        if len(tests) != 2:
            raise Refuse("expected two `einf ^ x == 0` tests")
        tw = tr.tr(tests[0].left)
        dirs = [v for v in assigns(f, 'direction') if ast.unparse(v) == 'x | -eo']
        if len(dirs) != 1:
            raise Refuse("direction = x | -eo")
        td = tr.tr(dirs[0])
        r2 = assigns(f, 'rad2')
        if len(r2) != 1:
            raise Refuse("rad2")
        tr2 = tr.tr(r2[0])
        return (f"def classify_y (X einf : A) (σ : ℚ) : A := {ty.lean}\ndef classify_einf_wedge (X einf : A) (σ : ℚ) : A := {tw.lean}\n"
                f"def classify_direction_of_direction (X eo : A) (σ : ℚ) : A := {td.lean}\ndef classify_rad2 (X : A) (σ : ℚ) : A := {tr2.lean}\n")
    emit('classify_tests', gen_classify_tests,
         "theorem classify_tests_eq (X einf eo : A) (σ : ℚ) : GenMV.classify_y X einf σ = Classify.vdot (-einf) X σ "
         "∧ GenMV.classify_einf_wedge X einf σ = Classify.vwedge einf X σ "
         "∧ GenMV.classify_direction_of_direction X eo σ = Classify.dotv X (-eo) σ ∧ GenMV.classify_rad2 X σ = X * (σ • X) := by\n"
         "  refine ⟨?_, ?_, ?_, ?_⟩ <;> simp only [GenMV.classify_y, GenMV.classify_einf_wedge, GenMV.classify_direction_of_direction, "
         "GenMV.classify_rad2, Classify.vdot, Classify.vwedge, Classify.dotv]\n")

    def nodoc(body):
        return [s_ for s_ in body if not (isinstance(s_, ast.Expr) and isinstance(s_.value, ast.Constant))]

    # ---- g3c fast kernels in object form: fast_up, fast_normalInv, fast_homo, fast_down, meet, euc_dist (radicand)
    def gen_fast():
        g = tree(G3C)
        tup = Tr(dict(mv=V('x'), no=V('no'), ninf=V('ninf'))).tr(last_return(find(g, 'fast_up')))
        f = find(g, 'fast_normalInv')
        src = [ast.unparse(st) for st in nodoc(f.body)]
        if src != ['Madjoint = ~mv', 'MadjointM = (Madjoint * mv).value[0]', 'return Madjoint / MadjointM']:
            raise Refuse(f"fast_normalInv: {src}")
        f = find(g, 'fast_homo')
        e = last_return(f)
        if not (isinstance(e, ast.BinOp) and isinstance(e.op, ast.Mult) and ast.unparse(e.left) == 'mv' and isinstance(e.right, ast.Call)
                and ast.unparse(e.right.func) == 'fast_normalInv' and len(e.right.args) == 1):
            raise Refuse("fast_homo is not mv * fast_normalInv(<expr>)")
        hden = Tr(dict(mv=V('x'), ninf=V('ninf'))).tr(e.right.args[0])
        tdown = Tr(dict(E0=H('E0', '(1 : ℚ)')), opaque={'fast_homo(mv)': V('h')}).tr(last_return(find(g, 'fast_down')))
        f = find(g, 'meet')
        if ast.unparse(last_return(f)) != 'fast_dual(fast_dual(A) ^ fast_dual(B))':
            raise Refuse("meet is not fast_dual(fast_dual(A) ^ fast_dual(B))")
        f = find(g, 'fast_dual')
        if ast.unparse(last_return(f)) != 'layout.MultiVector(dual_gmt_func(I5.value, a.value))':
            raise Refuse("fast_dual is not dual_gmt_func(I5.value, a.value)")
        f = find(g, 'euc_dist')
        body = nodoc(f.body)
        if ast.unparse(body[0]) != 'dot_result = (conf_mv_a | conf_mv_b)[()]' or not isinstance(body[1], ast.If) \
                or ast.unparse(body[1].test) != 'dot_result < 0.0' or not isinstance(body[1].body[0], ast.Return):
            raise Refuse("euc_dist frame")
        r = body[1].body[0].value
        if not (isinstance(r, ast.Call) and ast.unparse(r.func) == 'math.sqrt' and len(r.args) == 1):
            raise Refuse("euc_dist is not math.sqrt(<expr>)")
        rad = Tr(dict(dot_result=S('d'))).tr(r.args[0])
        dot = Tr(dict(conf_mv_a=V('X'), conf_mv_b=V('Y'))).tr(body[0].value.value)
        return (f"def g3c_fast_up (x ninf no : A) : A := {tup.lean}\n"
                f"def g3c_fast_homo_den (x ninf : A) : A := {hden.lean}\n"
                f"def g3c_fast_down (h E0 : A) : A := {tdown.lean}\n"
                f"def g3c_euc_dist_radicand (d : ℚ) : ℚ := {rad.lean}\n"
                f"def g3c_euc_dist_dot (X Y : A) : A := {dot.lean}\n")
    emit('g3c_fast', gen_fast,
         "theorem g3c_fast_eq {x y ep en : A} {q qy b' : ℚ} (r : Conf.Rel x ep en q) (ry : Conf.Rel y ep en qy) (hxy : x * y + y * x = (2 * b') • (1 : A)) (s : ℚ) :\n"
         "    GenMV.g3c_fast_up x (Conf.einf ep en) (-(Conf.eo ep en)) = Conf.up x ep en q\n"
         "    ∧ GenMV.g3c_fast_homo_den (s • Conf.up x ep en q) (Conf.einf ep en) = s • (1 : A)\n"
         "    ∧ GenMV.g3c_fast_down (Conf.up x ep en q) (Conf.E0 ep en) = x\n"
         "    ∧ (GenMV.g3c_euc_dist_radicand b') • (1 : A) = (-2 : ℚ) • (b' • (1 : A))\n"
         "    ∧ (-2 : ℚ) • GenMV.g3c_euc_dist_dot (Conf.up x ep en q) (Conf.up y ep en qy) = (x - y) * (x - y) := by\n"
         "  refine ⟨?_, ?_, ?_, ?_, ?_⟩\n"
         "  · have h := Conf.fast_up_eq_up r\n    simp only [GenMV.g3c_fast_up]\n    rw [← h]\n    mv_nf\n    mv_fin\n"
         "  · have h := Conf.homo_scale r s\n    simp only [GenMV.g3c_fast_homo_den]\n    rw [← h]\n    mv_nf\n    mv_fin\n"
         "  · have h := Conf.down_up r\n    simp only [GenMV.g3c_fast_down, one_smul]\n    exact h\n"
         "  · simp only [GenMV.g3c_euc_dist_radicand]\n    mv_fin\n"
         "  · have h := Conf.dist_sq r ry hxy\n    simp only [GenMV.g3c_euc_dist_dot]\n    rw [← h]\n    mv_nf\n    mv_fin\n")

    # ---- g3.generate_rotation_rotor: cos(theta/2) - B*sin(theta/2), B = (m ^ n) / sqrt(-(B*B)[()]); g3c.get_radius_from_sphere
    def gen_rot_radius():
        f = find(tree('clifford/tools/g3/__init__.py'), 'generate_rotation_rotor')
        bs = assigns(f, 'bivector_B')
        if len(bs) != 2 or ast.unparse(bs[0]) != 'euc_vector_m ^ euc_vector_n' or ast.unparse(bs[1]) != 'bivector_B / math.sqrt((-bivector_B * bivector_B)[()])':
            raise Refuse("bivector_B is not (m ^ n) normalised by sqrt(-(B*B)[()])")
        for nm in ('euc_vector_n', 'euc_vector_m'):
            a = assigns(f, nm)
            if len(a) != 1 or ast.unparse(a[0]) != f'{nm} / abs({nm})':
                raise Refuse(f"{nm} is not normalised by abs")
        wedge = Tr(dict(euc_vector_m=V('m'), euc_vector_n=V('n'))).tr(bs[0])
        r = assigns(f, 'rotor')
        if len(r) != 1 or ast.unparse(last_return(f)) != 'rotor':
            raise Refuse("rotor")
        rot = Tr(dict(bivector_B=M('B')), opaque={'math.cos(theta / 2)': S('c'), 'math.sin(theta / 2)': S('s')}).tr(r[0])
        g = find(tree(G3C), 'get_radius_from_sphere')
        ds = assigns(g, 'dual_sphere')
        if len(ds) != 2 or ast.unparse(ds[0]) != 'sphere * I5' or ast.unparse(ds[1]) != 'dual_sphere / (-dual_sphere | ninf)[()]' \
                or ast.unparse(last_return(g)) != 'math.sqrt(abs(dual_sphere * dual_sphere))':
            raise Refuse("get_radius_from_sphere frame")
        den = Tr(dict(dual_sphere=V('σ'), ninf=V('ninf'))).tr(ds[1].right.value)
        sq = Tr(dict(dual_sphere=V('σ'))).tr(last_return(g).args[0].args[0])
        return (f"def g3_rotation_plane (m n : A) : A := {wedge.lean}\n"
                f"def g3_rotation_rotor (c s : ℚ) (B : A) : A := {rot.lean}\n"
                f"def g3c_radius_den (σ ninf : A) : A := {den.lean}\n"
                f"def g3c_radius_sq (σ : A) : A := {sq.lean}\n")
    emit('g3c_rot_radius', gen_rot_radius,
         "theorem g3c_rot_radius_eq {x ep en : A} {q : ℚ} (r : Conf.Rel x ep en q) (c s ρ : ℚ) (m n B : A) :\n"
         "    GenMV.g3_rotation_plane m n = (1/2 : ℚ) • (m * n - n * m) ∧ GenMV.g3_rotation_rotor c s B = c • (1 : A) - s • B\n"
         "    ∧ GenMV.g3c_radius_den (Conf.dualSphere x ep en q ρ) (Conf.einf ep en) = 1\n"
         "    ∧ GenMV.g3c_radius_sq (Conf.dualSphere x ep en q ρ) = (2 * ρ) • (1 : A) := by\n"
         "  refine ⟨?_, ?_, ?_, ?_⟩\n"
         "  · simp only [GenMV.g3_rotation_plane]\n    mv_nf\n    mv_fin\n"
         "  · simp only [GenMV.g3_rotation_rotor]\n    mv_nf\n    mv_fin\n"
         "  · have h := Conf.dualSphere_dot_einf r ρ\n    simp only [GenMV.g3c_radius_den]\n    have h' : (1 : A) = -(-1) := by simp\n    rw [h', ← h]\n    mv_nf\n    mv_fin\n"
         "  · simp only [GenMV.g3c_radius_sq]\n    exact Conf.dualSphere_sq r ρ\n")

    # ---- g3c rotor roots: rotor_between_objects_root (main branches), pos_twiddle_root, general_root (positive branch), positive_root,
    #      dorst_norm, annihilate_k, square_roots_of_rotor — the chain behind C13.rotor_between_objects_g3c / square_root_of_rotor
    def gen_roots():
        g = tree(G3C)
        # rotor_between_objects_root
        f = find(g, 'rotor_between_objects_root')
        body = nodoc(f.body)
        pre = {ast.unparse(st.targets[0]): st.value for st in body if isinstance(st, ast.Assign)}
        if ast.unparse(pre.get('gamma', ast.Constant(0))) != '(X1 * X1).value[0]':
            raise Refuse("gamma is not (X1 * X1).value[0]")
        ifs = [st for st in body if isinstance(st, ast.If)]
        if len(ifs) != 1 or ast.unparse(ifs[0].test) != 'gamma > 0':
            raise Refuse("expected one `if gamma > 0`")
        tr = Tr(dict(X1=M('X1'), X2=M('X2'), gamma=S('γ')))
        for nm in ('X21', 'X12'):
            if nm in pre:
                tr.env[nm] = T(f"({tr.tr(pre[nm]).lean})", 'm')

        def branch(stmts, want_ret):
            cs = [st for st in stmts if isinstance(st, ast.Assign) and ast.unparse(st.targets[0]) == 'C']
            if len(cs) != 1:
                raise Refuse("C is not assigned exactly once in a branch")
            guards = [st for st in stmts if isinstance(st, ast.If)]
            if len(guards) != 1 or ast.unparse(guards[0].test) != 'abs(C.value[0]) < 1e-06':
                raise Refuse("null-C guard")
            rest = [st for st in stmts if isinstance(st, ast.Return)] + [st for st in guards[0].orelse if isinstance(st, ast.Return)]
            if len(rest) != 1 or ast.unparse(rest[0].value) != want_ret:
                raise Refuse(f"branch does not end in `return {want_ret}`")
            return tr.tr(cs[0].value).lean
        cpos = branch(ifs[0].body, 'pos_twiddle_root(C)[0].normal()')
        cneg = branch(ifs[0].orelse, 'C.normal()')
        # pos_twiddle_root
        f = find(g, 'pos_twiddle_root')
        src = [ast.unparse(st) for st in nodoc(f.body)]
        if src != ['sigma = C * ~C', 'k1, k2 = general_root(sigma)', 'return (annihilate_k(k1, C), annihilate_k(k2, C))']:
            raise Refuse(f"pos_twiddle_root: {src}")
        # general_root: the first branch
        f = find(g, 'general_root')
        gi = [st for st in nodoc(f.body) if isinstance(st, ast.If)]
        if not gi or ast.unparse(gi[0].test) != 'check_sigma_for_positive_root(sigma)' or not isinstance(gi[0].body[0], ast.Return) \
                or not ast.unparse(gi[0].body[0].value).startswith('(positive_root(sigma), '):
            raise Refuse("general_root: first branch is not `if check_sigma_for_positive_root(sigma): return positive_root(sigma), 0`")
        f = find(g, 'check_sigma_for_positive_root')
        if ast.unparse(last_return(f)) != 'sigma.value[0] + dorst_norm(sigma) > 0':
            raise Refuse("check_sigma_for_positive_root")
        # dorst_norm
        f = find(g, 'dorst_norm')
        src = [ast.unparse(st) for st in nodoc(f.body)]
        if len(src) != 3 or src[0] != 'sigma_4 = sigma(4)' or src[2] != 'return math.sqrt(sqrd_ans)':
            raise Refuse(f"dorst_norm: {src}")
        sq = assigns(f, 'sqrd_ans')[0]
        tn = Tr({}, opaque={'sigma.value[0]': S('s'), '(sigma_4 * sigma_4).value[0]': S('t')}).tr(sq)
        if tn.kind != 's':
            raise Refuse("dorst_norm: squared norm is not a scalar expression")
        # positive_root
        f = find(g, 'positive_root')
        body = nodoc(f.body)
        src = [ast.unparse(st) for st in body]
        if len(src) != 3 or src[0] != 'norm_s = dorst_norm(sigma)':
            raise Refuse(f"positive_root: {src}")
        den = assigns(f, 'denominator')[0]
        if not (isinstance(den, ast.BinOp) and isinstance(den.op, ast.Mult) and ast.unparse(den.left) == 'math.sqrt(2)'
                and isinstance(den.right, ast.Call) and ast.unparse(den.right.func) == 'math.sqrt' and len(den.right.args) == 1):
            raise Refuse("positive_root: denominator is not math.sqrt(2) * math.sqrt(<expr>)")
        trp = Tr(dict(sigma=M('σ'), norm_s=S('n'), denominator=S('den')), opaque={'sigma.value[0]': S('s')})
        dsq = trp.tr(den.right.args[0])
        if dsq.kind != 's':
            raise Refuse("positive_root: radicand")
        proot = trp.tr(last_return(f))
        # annihilate_k
        f = find(g, 'annihilate_k')
        src = [ast.unparse(st) for st in nodoc(f.body)]
        if len(src) != 2 or src[1] != 'return (k_4 * C).normal()':
            raise Refuse(f"annihilate_k: {src}")
        tk = Tr(dict(C=M('C')), opaque={'K.value[0]': S('K0'), 'K(4)': M('K4')})
        k4 = tk.tr(assigns(f, 'k_4')[0])
        tk.env['k_4'] = T(f"({k4.lean})", 'm')
        ann = tk.tr(ast.parse('k_4 * C', mode='eval').body)
        # square_roots_of_rotor
        f = find(g, 'square_roots_of_rotor')
        r = last_return(f)
        if not (isinstance(r, ast.Call) and ast.unparse(r.func) == 'pos_twiddle_root' and len(r.args) == 1):
            raise Refuse("square_roots_of_rotor is not pos_twiddle_root(<expr>)")
        sarg = Tr(dict(R=M('R'))).tr(r.args[0])
        return (f"def g3c_rbo_C_pos (γ : ℚ) (X1 X2 : A) : A := {cpos}\n"
                f"def g3c_rbo_C_neg (X1 X2 : A) : A := {cneg}\n"
                f"def g3c_dorst_norm_sq (s t : ℚ) : ℚ := {tn.lean}\n"
                f"def g3c_positive_root_radicand (s n : ℚ) : ℚ := (2 : ℚ) * {dsq.lean}\n"
                f"def g3c_positive_root (σ : A) (n den : ℚ) : A := {proot.lean}\n"
                f"def g3c_annihilate_k (K0 : ℚ) (K4 C : A) : A := {ann.lean}\n"
                f"def g3c_sqrt_rotor_arg (R : A) : A := {sarg.lean}\n")
    emit('g3c_rotor_roots', gen_roots,
         "theorem g3c_rotor_roots_eq (γ s t n den K0 : ℚ) (X1 X2 σ q K4 C R : A) :\n"
         "    GenMV.g3c_rbo_C_pos γ X1 X2 = 1 + γ • (X2 * X1) ∧ GenMV.g3c_rbo_C_neg X1 X2 = 1 + (-1 : ℚ) • (X2 * X1)\n"
         "    ∧ GenMV.g3c_dorst_norm_sq s t = s * s - t ∧ GenMV.g3c_positive_root_radicand s n = 2 * (s + n)\n"
         "    ∧ GenMV.g3c_positive_root σ n den = (1 / den) • (σ + n • (1 : A))\n"
         "    ∧ GenMV.g3c_annihilate_k K0 K4 C = (K0 • (1 : A) - K4) * C ∧ GenMV.g3c_sqrt_rotor_arg R = 1 + R\n"
         "    -- the chain: annihilate_k(positive_root(s + q), C) with K[0] = (s+n)/den, K(4) = q/den is the rotor of C13.rotor_between_objects_g3c\n"
         "    ∧ GenMV.g3c_annihilate_k ((1 / den) * (s + n)) ((1 / den) • q) (GenMV.g3c_rbo_C_pos γ X1 X2)\n"
         "        = (1 / den) • (((s + n) • (1 : A) - q) * (1 + γ • (X2 * X1))) := by\n"
         "  refine ⟨?_, ?_, ?_, ?_, ?_, ?_, ?_, ?_⟩ <;>\n"
         "    simp only [GenMV.g3c_rbo_C_pos, GenMV.g3c_rbo_C_neg, GenMV.g3c_dorst_norm_sq, GenMV.g3c_positive_root_radicand, GenMV.g3c_positive_root,\n"
         "      GenMV.g3c_annihilate_k, GenMV.g3c_sqrt_rotor_arg] <;> first | mv_fin | (mv_nf; mv_fin) | ring\n")

    out.append("end GenMV\n\nopen Classify in\nsection\nvariable {A : Type} [Ring A] [Algebra ℚ A]\n")
    for name, t in thms:
        out.append(t + "\n")
    out.append("end\n")
    for name, t in thms:
        out.append(f"#print axioms {t.split()[1]}\n")
    if '--status' in sys.argv:
        sys.stderr.write(json.dumps(dict(status=status, theorems={n: t.split()[1] for n, t in thms})))
    sys.stdout.write("".join(out))


if __name__ == '__main__':
    main()
