#!/usr/bin/env python3
"""Tie A, eighth slice: the numba overload bodies of clifford/numba/_multivector.py (what jitted user code runs).

For each `@numba.extending.overload(operator.<op>)` function the type-dispatch chain is read from the CURRENT source
(`isinstance(a, MultiVectorType) and isinstance(b, MultiVectorType)`, `Number`/`MultiVectorType`, `MultiVectorType`/`Number`),
and the body of the inner `impl` of each branch is translated on value arrays:

    a.value ± b.value, -x, x * s, s * x, x / s        element-wise (`Ctx.add/sub/neg`, `map`)
    gmt_func/omt_func/imt_func(x, y), adjoint_func(x)  the layout's kernels (`Ctx.gp/op/ip/rev`)
    op = x.astype(ret_type); op[scalar_index] ±= s     a copy modified at the scalar slot (`Array.modify C.scalarIdx`)
    np.zeros_like(x, dtype=…)                          the zero array of the same length
    x.copy()                                           the same values

Generated theorems: each branch is the interpreter operation / the overload model (`Model.Ctx.j…`) that `Proofs/NumbaEq.lean`
relates to the interpreter semantics.  numba's typing and lowering of these bodies is outside (C10 compares compiled wrappers
with the interpreter).  Anything else is REFUSED.
"""
import ast
import json
import sys
from pathlib import Path


class Refuse(Exception):
    pass


KERN = {'gmt_func': 'C.gp', 'omt_func': 'C.op', 'imt_func': 'C.ip', 'lcmt_func': 'C.lc'}


class Tr:
    """value-array expressions; names: mv operands -> Lean arrays, scalar operands -> Lean rationals"""
    def __init__(self, mvs, scalars, kernels):
        self.mvs, self.scalars, self.kernels = dict(mvs), dict(scalars), set(kernels)
        self.arr = {}          # local array names

    def kind(self, e):
        try:
            self.sc(e)
            return 's'
        except Refuse:
            return 'a'

    def sc(self, e):
        if isinstance(e, ast.Name) and e.id in self.scalars:
            return self.scalars[e.id]
        if isinstance(e, ast.Constant) and isinstance(e.value, int):
            return f"({e.value} : Rat)"
        raise Refuse(f"scalar {ast.unparse(e)}")

    def ar(self, e):
        k = ast.unparse(e)
        if isinstance(e, ast.Attribute) and e.attr == 'value' and isinstance(e.value, ast.Name) and e.value.id in self.mvs:
            return self.mvs[e.value.id]
        if isinstance(e, ast.Name) and e.id in self.arr:
            return self.arr[e.id]
        if isinstance(e, ast.Call):
            fn = ast.unparse(e.func)
            if isinstance(e.func, ast.Attribute) and e.func.attr in ('astype', 'copy'):
                return self.ar(e.func.value)
            if fn in self.kernels and fn in KERN and len(e.args) == 2:
                return f"({KERN[fn]} {self.ar(e.args[0])} {self.ar(e.args[1])})"
            if fn == 'adjoint_func' and 'adjoint_func' in self.kernels and len(e.args) == 1:
                return f"(C.rev {self.ar(e.args[0])})"
            if fn == 'np.zeros_like' and len(e.args) == 1:
                return f"(({self.ar(e.args[0])}).map fun _ => (0 : Rat))"
            raise Refuse(f"call {k}")
        if isinstance(e, ast.UnaryOp) and isinstance(e.op, ast.USub):
            return f"(C.neg {self.ar(e.operand)})"
        if isinstance(e, ast.BinOp):
            lk, rk = self.kind(e.left), self.kind(e.right)
            if isinstance(e.op, (ast.Add, ast.Sub)) and lk == 'a' and rk == 'a':
                return f"(C.{'add' if isinstance(e.op, ast.Add) else 'sub'} {self.ar(e.left)} {self.ar(e.right)})"
            if isinstance(e.op, ast.Mult) and lk == 'a' and rk == 's':
                return f"(({self.ar(e.left)}).map (· * {self.sc(e.right)}))"
            if isinstance(e.op, ast.Mult) and lk == 's' and rk == 'a':
                return f"(({self.ar(e.right)}).map (· * {self.sc(e.left)}))"
            if isinstance(e.op, ast.Div) and lk == 'a' and rk == 's':
                return f"(({self.ar(e.left)}).map (· / {self.sc(e.right)}))"
        raise Refuse(f"array expression {k}")


def branches(f):
    """[(kind, prelude statements, impl)] for the dispatch chain of an overload function; kind in mm / sm / ms / m"""
    out = []
    node = [s for s in f.body if isinstance(s, ast.If)]
    if len(node) != 1:
        raise Refuse("no dispatch chain")
    node = node[0]
    while node is not None:
        t = ast.unparse(node.test)
        kind = {'isinstance(a, MultiVectorType) and isinstance(b, MultiVectorType)': 'mm',
                'isinstance(a, types.abstract.Number) and isinstance(b, MultiVectorType)': 'sm',
                'isinstance(a, MultiVectorType) and isinstance(b, types.abstract.Number)': 'ms',
                'isinstance(a, MultiVectorType)': 'm'}.get(t)
        if kind is None:
            raise Refuse(f"dispatch test {t}")
        impl = [s for s in node.body if isinstance(s, ast.FunctionDef) and s.name == 'impl']
        if len(impl) != 1 or ast.unparse(node.body[-1]) != 'return impl':
            raise Refuse("branch does not define and return impl")
        out.append((kind, [s for s in node.body if not isinstance(s, ast.FunctionDef)][:-1], impl[0]))
        if len(node.orelse) == 1 and isinstance(node.orelse[0], ast.If):
            node = node.orelse[0]
        elif not node.orelse:
            node = None
        else:
            raise Refuse("dispatch chain shape")
    return out


def impl_term(kind, prelude, impl):
    pre = [ast.unparse(s) for s in prelude]
    kernels = set()
    scalar_index_ok = False
    for p in pre:
        if p in ('if a.layout_type != b.layout_type:\n    raise numba.TypingError(\'MultiVector objects belong to different layouts\')',):
            continue
        for kname in list(KERN) + ['adjoint_func']:
            if p == f'{kname} = a.layout_type.obj.{kname}':
                kernels.add(kname)
        if p in ('scalar_index = b.layout_type.obj._basis_blade_order.bitmap_to_index[0]', 'scalar_index = a.layout_type.obj._basis_blade_order.bitmap_to_index[0]'):
            scalar_index_ok = True
    args = [a.arg for a in impl.args.args]
    if kind == 'mm':
        tr = Tr(dict(a='a', b='b'), {}, kernels)
    elif kind == 'sm':
        tr = Tr(dict(b='b'), dict(a='q'), kernels)
    elif kind == 'ms':
        tr = Tr(dict(a='a'), dict(b='q'), kernels)
    else:
        tr = Tr(dict(a='a'), {}, kernels)
    term = None
    for st in impl.body:
        if isinstance(st, ast.Assign) and isinstance(st.targets[0], ast.Name):
            tr.arr[st.targets[0].id] = tr.ar(st.value)
        elif isinstance(st, ast.AugAssign) and isinstance(st.target, ast.Subscript) and ast.unparse(st.target.slice) == 'scalar_index' \
                and isinstance(st.target.value, ast.Name) and st.target.value.id in tr.arr and isinstance(st.op, (ast.Add, ast.Sub)):
            if not scalar_index_ok:
                raise Refuse("scalar_index is not bitmap_to_index[0] of the operand's layout")
            sym = '+' if isinstance(st.op, ast.Add) else '-'
            nm = st.target.value.id
            tr.arr[nm] = f"(({tr.arr[nm]}).modify C.scalarIdx (· {sym} {tr.sc(st.value)}))"
        elif isinstance(st, ast.Return):
            v = st.value
            if not (isinstance(v, ast.Call) and ast.unparse(v.func) in ('a.layout.MultiVector', 'b.layout.MultiVector') and len(v.args) == 1):
                raise Refuse("impl does not return <operand>.layout.MultiVector(<array>)")
            term = tr.ar(v.args[0])
        else:
            raise Refuse(f"statement {ast.unparse(st)[:40]}")
    if term is None:
        raise Refuse("no return")
    return term


SIG = {'mm': '(C : Ctx) (a b : MV)', 'sm': '(C : Ctx) (q : Rat) (b : MV)', 'ms': '(C : Ctx) (a : MV) (q : Rat)', 'm': '(C : Ctx) (a : MV)'}
ARGS = {'mm': 'C a b', 'sm': 'C q b', 'ms': 'C a q', 'm': 'C a'}
TSIG = {k: v.replace('Ctx', 'Model.Ctx').replace('MV', 'Model.MV') for k, v in SIG.items()}

EXPECT = {   # (overload, kind) -> model term
    ('ga_add', 'mm'): 'C.add a b', ('ga_add', 'sm'): 'C.jAddScalar b q', ('ga_add', 'ms'): 'C.jAddScalar a q',
    ('ga_sub', 'mm'): 'C.sub a b', ('ga_sub', 'sm'): 'C.jRSubScalar q b', ('ga_sub', 'ms'): 'C.jSubScalar a q',
    ('ga_mul', 'mm'): 'C.gp a b', ('ga_mul', 'sm'): 'C.jMulScalar b q', ('ga_mul', 'ms'): 'C.jMulScalar a q',
    ('ga_xor', 'mm'): 'C.op a b', ('ga_xor', 'sm'): 'C.jMulScalar b q', ('ga_xor', 'ms'): 'C.jMulScalar a q',
    ('ga_or', 'mm'): 'C.ip a b', ('ga_or', 'sm'): 'C.jOrScalar b q', ('ga_or', 'ms'): 'C.jOrScalar a q',
    ('ga_invert', 'm'): 'C.rev a', ('ga_neg', 'm'): 'C.neg a', ('ga_pos', 'm'): 'a',
}
UNF = "Model.Ctx.jAddScalar, Model.Ctx.jSubScalar, Model.Ctx.jRSubScalar, Model.Ctx.jMulScalar, Model.Ctx.jOrScalar"


def main():
    repo = Path(sys.argv[sys.argv.index('--repo') + 1]) if '--repo' in sys.argv else Path('/repo')
    out = ["import Model.Numba\nimport Proofs.NumbaEq\n\n/-! GENERATED from the current source by translate/numba2lean.py — do not edit -/\n"
           "set_option linter.unusedVariables false\nset_option linter.unusedSimpArgs false\nnamespace GenNumba\nopen Model\n\n"]
    status, thms = {}, []
    tree = ast.parse((repo / 'clifford' / 'numba' / '_multivector.py').read_text())
    funcs = {n.name: n for n in tree.body if isinstance(n, ast.FunctionDef)}
    for oname in ('ga_add', 'ga_sub', 'ga_mul', 'ga_xor', 'ga_or', 'ga_invert', 'ga_neg', 'ga_pos'):
        key = 'nb_' + oname[3:]
        try:
            if oname not in funcs:
                raise Refuse(f"{oname} not found")
            brs = branches(funcs[oname])
            kinds = [k for k, _, _ in brs]
            want = ['mm', 'sm', 'ms'] if oname in ('ga_add', 'ga_sub', 'ga_mul', 'ga_xor', 'ga_or') else ['m']
            if kinds != want:
                raise Refuse(f"dispatch branches {kinds}, expected {want}")
            defs, stmts = [], []
            for kind, pre, impl in brs:
                term = impl_term(kind, pre, impl)
                dn = f"{oname}_{kind}"
                defs.append(f"def {dn} {SIG[kind]} : MV := {term}\n")
                stmts.append(f"GenNumba.{dn} {ARGS[kind]} = {EXPECT[(oname, kind)]}")
            out.append("".join(defs))
            th = (f"theorem {key}_eq (C : Model.Ctx) (a b : Model.MV) (q : Rat) : " + " ∧ ".join(stmts) + " := by\n"
                  f"  refine ⟨{', '.join('?_' for _ in stmts)}⟩ <;> simp only [" + ", ".join(f"GenNumba.{oname}_{k}" for k in kinds) + f", {UNF}]\n"
                  if len(stmts) > 1 else
                  f"theorem {key}_eq (C : Model.Ctx) (a : Model.MV) : {stmts[0]} := by\n  simp only [GenNumba.{oname}_m]\n")
            thms.append((key, th))
            status[key] = dict(status='ok')
        except Refuse as r:
            status[key] = dict(status='refused', reason=str(r))
        except Exception as r:
            status[key] = dict(status='refused', reason=repr(r)[:200])
    # ---- ga_pow: `if b == 0: return 1 + 0*a; op = a.value; for i in range(1, b): op = gmt_func(op, a.value)`
    try:
        f = funcs['ga_pow']
        top = [s for s in f.body if isinstance(s, ast.If)]
        if len(top) != 1 or ast.unparse(top[0].test) != 'isinstance(a, MultiVectorType) and isinstance(b, types.Integer)':
            raise Refuse("ga_pow dispatch")
        pre = [ast.unparse(s) for s in top[0].body if not isinstance(s, ast.FunctionDef)]
        if pre != ['gmt_func = a.layout_type.obj.gmt_func', 'return impl']:
            raise Refuse("ga_pow prelude")
        impl = [s for s in top[0].body if isinstance(s, ast.FunctionDef)][0]
        src = [ast.unparse(s) for s in impl.body]
        want = ["if b < 0:\n    raise NotImplementedError('Negative powers are currently not implemented')",
                'if b == 0:\n    return 1 + 0 * a', 'op = a.value', 'for i in range(1, b):\n    op = gmt_func(op, a.value)',
                'return a.layout.MultiVector(op)']
        if src != want:
            raise Refuse("ga_pow body")
        out.append("def ga_pow (C : Ctx) (a : MV) (n : Nat) : MV :=\n"
                   "  if n = 0 then C.jAddScalar (C.jMulScalar a 0) 1 else (List.range (n - 1)).foldl (fun op _ => C.gp op a) a\n")
        thms.append(('nb_pow', "theorem nb_pow_eq (C : Model.Ctx) (a : Model.MV) (n : Nat) : GenNumba.ga_pow C a n = C.jPow a n := by\n"
                               "  simp only [GenNumba.ga_pow, Model.Ctx.jPow]\n"))
        status['nb_pow'] = dict(status='ok')
    except Refuse as r:
        status['nb_pow'] = dict(status='refused', reason=str(r))
    except Exception as r:
        status['nb_pow'] = dict(status='refused', reason=repr(r)[:200])
    # ---- ga_call: grade selection, literal and runtime paths
    try:
        f = funcs['ga_call']
        b = [x for x in f.body if not (isinstance(x, ast.Expr) and isinstance(x.value, ast.Constant))]
        if len(b) != 2 or ast.unparse(b[0]) != ("if len(args) == 1 and isinstance(args[0], (types.StarArgTuple, types.StarArgUniTuple)):\n    args = args[0].types"):
            raise Refuse("ga_call: varargs normalisation")
        g = b[1]
        if not (isinstance(g, ast.If) and ast.unparse(g.test) == 'len(args) > 0' and not g.orelse and len(g.body) == 2):
            raise Refuse("ga_call: `if len(args) > 0:`")
        if ast.unparse(g.body[0]) != 'grades = self.layout_type.obj._basis_blade_order.grades':
            raise Refuse("ga_call: grades is not the layout's grade array")
        lit = g.body[1]
        if not (isinstance(lit, ast.If) and ast.unparse(lit.test) == 'all((isinstance(arg, types.IntegerLiteral) for arg in args))'
                and len(lit.orelse) == 1 and isinstance(lit.orelse[0], ast.If)
                and ast.unparse(lit.orelse[0].test) == 'all((isinstance(arg, types.Integer) for arg in args))' and not lit.orelse[0].orelse):
            raise Refuse("ga_call: literal / runtime dispatch")
        copy = ['mv = self.layout.MultiVector(np.zeros_like(self.value))', 'mv.value[inds] = self.value[inds]', 'return mv']
        lb = [ast.unparse(x) for x in lit.body]
        if lb[:3] != ['inds = grades == args[0].literal_value', 'for arg in args[1:]:\n    inds |= grades == arg.literal_value', 'inds = inds.nonzero()'] \
                or lb[4:] != ['return impl'] or [ast.unparse(x) for x in lit.body[3].body] != copy:
            raise Refuse("ga_call: literal path")
        rt = lit.orelse[0].body
        if len(rt) != 2 or ast.unparse(rt[1]) != 'return impl' or [ast.unparse(x) for x in rt[0].body] != \
                ['inds = grades == args[0]', 'for i in range(1, len(args)):\n    inds |= grades == args[i]'] + copy:
            raise Refuse("ga_call: runtime path")
        body = ("  let inds := rest.foldl (fun inds g => (Array.range a.size).map fun j => inds.getD j false || (C.grade j == g))\n"
                "    ((Array.range a.size).map fun j => C.grade j == g0)\n"
                "  (Array.range a.size).map fun i => if inds.getD i false then a.getD i 0 else 0\n")
        out.append("def ga_call_literal (C : Ctx) (g0 : Nat) (rest : List Nat) (a : MV) : MV :=\n" + body +
                   "def ga_call_runtime (C : Ctx) (g0 : Nat) (rest : List Nat) (a : MV) : MV :=\n" + body)
        thms.append(('nb_call', "theorem nb_call_eq (C : Model.Ctx) (g0 : Nat) (rest : List Nat) (a : Model.MV) : "
                                "GenNumba.ga_call_literal C g0 rest a = C.jCall (g0 :: rest) a ∧ GenNumba.ga_call_runtime C g0 rest a = C.jCall (g0 :: rest) a :=\n"
                                "  ⟨NumbaEq.callBody_eq C g0 rest a, NumbaEq.callBody_eq C g0 rest a⟩\n"))
        status['nb_call'] = dict(status='ok')
    except Refuse as r:
        status['nb_call'] = dict(status='refused', reason=str(r))
    except Exception as r:
        status['nb_call'] = dict(status='refused', reason=repr(r)[:200])
    # ---- the overloads that re-use a Python method body or delegate to a layout function: a table read from the source
    try:
        table = []
        for n_ in tree.body:
            if not isinstance(n_, ast.FunctionDef) or not n_.decorator_list:
                continue
            d = n_.decorator_list[0]
            if not (isinstance(d, ast.Call) and ast.unparse(d.func) in ('numba.extending.overload_method', 'numba.extending.overload_attribute', 'numba.extending.overload')):
                continue
            dk = ast.unparse(d.func).rsplit('.', 1)[1]
            if dk == 'overload':
                if ast.unparse(d.args[0]) != 'abs':
                    continue
                target = 'abs'
            else:
                if ast.unparse(d.args[0]) != 'MultiVectorType':
                    raise Refuse(f"{n_.name}: not an overload on MultiVectorType")
                target = d.args[1].value
            body = [x for x in n_.body if not (isinstance(x, ast.Expr) and isinstance(x.value, ast.Constant))]
            if len(body) == 1 and isinstance(body[0], ast.If) and ast.unparse(body[0].test) == 'isinstance(self, MultiVectorType)' and not body[0].orelse:
                body = body[0].body
            if len(body) == 1 and isinstance(body[0], ast.Return):
                what = ast.unparse(body[0].value)
            else:
                pre = [ast.unparse(x) for x in body if not isinstance(x, ast.FunctionDef)]
                impl = [x for x in body if isinstance(x, ast.FunctionDef)]
                if len(impl) != 1 or pre[-1] != 'return impl':
                    raise Refuse(f"{n_.name}: shape")
                env = {}
                for p_ in pre[:-1]:
                    k_, v_ = p_.split(' = ', 1)
                    env[k_] = v_.replace('self.layout_type.obj.', 'layout.')
                ib = [ast.unparse(x) for x in impl[0].body]
                if len(ib) != 1 or not ib[0].startswith('return '):
                    raise Refuse(f"{n_.name}: impl is not a single return")
                what = ib[0][7:]
                for k_, v_ in env.items():
                    what = what.replace(k_ + '(', v_ + '(')
            table.append((dk, target, what))
        table = sorted(set(table))      # definition order and repeated definitions do not matter
        lean_list = "[" + ", ".join(f'("{a}", "{b_}", "{c}")' for a, b_, c in table) + "]"
        out.append(f"def reuse_table : List (String × String × String) := {lean_list}\n")
        thms.append(('nb_reuse', "theorem nb_reuse_eq : GenNumba.reuse_table = Model.numbaReuseTable := by decide\n"))
        status['nb_reuse'] = dict(status='ok')
    except Refuse as r:
        status['nb_reuse'] = dict(status='refused', reason=str(r))
    except Exception as r:
        status['nb_reuse'] = dict(status='refused', reason=repr(r)[:200])
    out.append("end GenNumba\n\n")
    names = {}
    for name, t in thms:
        out.append(t + "\n")
    for name, t in thms:
        names[name] = t.split()[1]
        out.append(f"#print axioms {t.split()[1]}\n")
    if '--status' in sys.argv:
        sys.stderr.write(json.dumps(dict(status=status, theorems=names)))
    sys.stdout.write("".join(out))


if __name__ == '__main__':
    main()
