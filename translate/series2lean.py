#!/usr/bin/env python3
"""Tie A, ninth slice: the four series loops `sin`, `cos`, `sinh`, `cosh` of clifford/taylor_expansions.py.

Recognised on the CURRENT source (anything else is REFUSED):

    op = +X | 1 + 0*X ;  X2 = X*X ;  P = X | 1 + 0*X
    for n in range(1, max_order):
        P = P * X2
        op = op + (<coefficient in n>) * P          coefficient: [(-1)**n | 1] / math.gamma(2*n + c),  c in {1, 2}
    return op

and printed as a left fold over `List.range' 1 (max_order − 1)` on the executable multivector operations (`Ctx.gp/add/smul`),
with `math.gamma(k)` as `(k − 1)!` and `(-1)**n` as a parity test.  Generated theorems: the four functions are
`Model.Ctx.oddSeries / evenSeries` with the matching `alt` flag — the executable series the correspondence evaluates in exact
rationals, whose proof-side counterparts (`SeriesP.evenTrunc / oddTrunc`) carry the C16 theorems.
"""
import ast
import json
import sys
from pathlib import Path


class Refuse(Exception):
    pass


def find(tree, name):
    hits = [n for n in tree.body if isinstance(n, ast.FunctionDef) and n.name == name]
    if not hits:
        raise Refuse(f"function {name} not found")
    return hits[-1]


def init_term(e):
    s = ast.unparse(e)
    if s in ('+X', 'X'):
        return 'x'
    if s in ('1 + 0 * X',):
        return '(C.add C.one (C.smul 0 x))'
    raise Refuse(f"initial value {s}")


def coef(e, nv):
    """([(-1)**n |1]) / math.gamma(2*n + c) -> (sign text, c)"""
    if not (isinstance(e, ast.BinOp) and isinstance(e.op, ast.Div)):
        raise Refuse("coefficient is not a quotient")
    num, den = e.left, e.right
    if isinstance(num, ast.Constant) and num.value == 1:
        sign = '1'
    elif ast.unparse(num) in (f'(-1) ** {nv}', f'(-1) ** ({nv})'):
        sign = f'(if {nv} % 2 = 1 then -1 else 1)'
    else:
        raise Refuse(f"numerator {ast.unparse(num)}")
    if not (isinstance(den, ast.Call) and ast.unparse(den.func) == 'math.gamma' and len(den.args) == 1):
        raise Refuse("denominator is not math.gamma(…)")
    a = den.args[0]
    if not (isinstance(a, ast.BinOp) and isinstance(a.op, ast.Add) and ast.unparse(a.left) == f'2 * {nv}'
            and isinstance(a.right, ast.Constant) and a.right.value in (1, 2)):
        raise Refuse(f"gamma argument {ast.unparse(a)}")
    return sign, a.right.value


def series(tree, name):
    f = find(tree, name)
    if [a.arg for a in f.args.args] != ['X', 'max_order']:
        raise Refuse("parameters")
    b = [s for s in f.body if not (isinstance(s, ast.Expr) and isinstance(s.value, ast.Constant))]
    if len(b) != 5 or not all(isinstance(s, ast.Assign) for s in b[:3]) or not isinstance(b[3], ast.For) or not isinstance(b[4], ast.Return):
        raise Refuse("shape")
    if ast.unparse(b[0].targets[0]) != 'op':
        raise Refuse("op")
    op0 = init_term(b[0].value)
    if ast.unparse(b[1]) not in ('X2 = X * X',):
        raise Refuse("X2 = X*X")
    pname = b[2].targets[0].id
    p0 = init_term(b[2].value)
    loop = b[3]
    if ast.unparse(loop.iter) != 'range(1, max_order)' or len(loop.body) != 2:
        raise Refuse("loop header / body")
    nv = loop.target.id
    if ast.unparse(loop.body[0]) != f'{pname} = {pname} * X2':
        raise Refuse("power update")
    u = loop.body[1]
    if not (isinstance(u, ast.Assign) and ast.unparse(u.targets[0]) == 'op' and isinstance(u.value, ast.BinOp) and isinstance(u.value.op, ast.Add)
            and ast.unparse(u.value.left) == 'op' and isinstance(u.value.right, ast.BinOp) and isinstance(u.value.right.op, ast.Mult)
            and ast.unparse(u.value.right.right) == pname):
        raise Refuse("accumulation is not op = op + c * P")
    sign, c = coef(u.value.right.left, nv)
    if ast.unparse(b[4].value) != 'op':
        raise Refuse("return op")
    return (f"def {name}_series (C : Ctx) (maxOrder : Nat) (x : MV) : MV :=\n  let x2 := C.gp x x\n"
            f"  ((List.range' 1 (maxOrder - 1)).foldl (fun (st : MV × MV) ({nv} : Nat) =>\n    let p := C.gp st.2 x2\n"
            f"    let c : Rat := {sign} / ((Ctx.fact (2 * {nv} + {c - 1}) : Nat) : Rat)\n    (C.add st.1 (C.smul c p), p)) ({op0}, {p0})).1\n")


def main():
    repo = Path(sys.argv[sys.argv.index('--repo') + 1]) if '--repo' in sys.argv else Path('/repo')
    out = ["import Model.Series\n\n/-! GENERATED from the current source by translate/series2lean.py — do not edit -/\n"
           "set_option linter.unusedVariables false\nset_option linter.unusedSimpArgs false\nnamespace GenSeries\nopen Model\n\n"]
    status, thms = {}, []
    tree = ast.parse((repo / 'clifford' / 'taylor_expansions.py').read_text())
    for name, model in (('sin', 'oddSeries true'), ('sinh', 'oddSeries false'), ('cos', 'evenSeries true'), ('cosh', 'evenSeries false')):
        key = 'series_' + name
        try:
            out.append(series(tree, name))
            thms.append((key, f"theorem {key}_eq (C : Model.Ctx) (N : Nat) (x : Model.MV) : GenSeries.{name}_series C N x = C.{model} N x := by\n"
                              f"  simp [GenSeries.{name}_series, Model.Ctx.oddSeries, Model.Ctx.evenSeries]\n"))
            status[key] = dict(status='ok')
        except Refuse as r:
            status[key] = dict(status='refused', reason=str(r))
        except Exception as r:
            status[key] = dict(status='refused', reason=repr(r)[:200])
    out.append("end GenSeries\n\n")
    names = {}
    for name, t in thms:
        out.append(t + "\n")
    for name, t in thms:
        names[name] = t.split()[1]
        out.append(f"#print axioms {t.split()[1]}\n")
    if '--status' in sys.argv:
        sys.stderr.write(json.dumps(dict(status=status, theorems=names)))
    sys.stdout.write("".join(out))


if __name__ == '__main__':
    main()
