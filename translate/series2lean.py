#!/usr/bin/env python3
"""Tie A, ninth slice: the four series loops `sin`, `cos`, `sinh`, `cosh` of clifford/taylor_expansions.py.

Recognised on the CURRENT source (anything else is REFUSED):

    op = +X | 1 + 0*X ;  X2 = X*X ;  P = X | 1 + 0*X
    for n in range(1, max_order):
        P = P * X2
        op = op + (<coefficient in n>) * P          coefficient: [(-1)**n | 1] / math.gamma(2*n + c),  c in {1, 2}
    return op

and printed as a left fold over `List.range' 1 (max_order − 1)` on the executable multivector operations (`Ctx.gp/add/smul`),
with `math.gamma(k)` as `(k − 1)!` and `(-1)**n` as a parity test.  Generated theorems: the four functions are
`Model.Ctx.oddSeries / evenSeries` with the matching `alt` flag — the executable series the correspondence evaluates in exact
rationals, whose proof-side counterparts (`SeriesP.evenTrunc / oddTrunc`) carry the C16 theorems.
"""
import ast
import json
import sys
from pathlib import Path


class Refuse(Exception):
    pass


def find(tree, name):
    hits = [n for n in tree.body if isinstance(n, ast.FunctionDef) and n.name == name]
    if not hits:
        raise Refuse(f"function {name} not found")
    return hits[-1]


def init_term(e):
    s = ast.unparse(e)
    if s in ('+X', 'X'):
        return 'x'
    if s in ('1 + 0 * X',):
        return '(C.add C.one (C.smul 0 x))'
    raise Refuse(f"initial value {s}")


def coef(e, nv):
    """([(-1)**n |1]) / math.gamma(2*n + c) -> (sign text, c)"""
    if not (isinstance(e, ast.BinOp) and isinstance(e.op, ast.Div)):
        raise Refuse("coefficient is not a quotient")
    num, den = e.left, e.right
    if isinstance(num, ast.Constant) and num.value == 1:
        sign = '1'
    elif ast.unparse(num) in (f'(-1) ** {nv}', f'(-1) ** ({nv})'):
        sign = f'(if {nv} % 2 = 1 then -1 else 1)'
    else:
        raise Refuse(f"numerator {ast.unparse(num)}")
    if not (isinstance(den, ast.Call) and ast.unparse(den.func) == 'math.gamma' and len(den.args) == 1):
        raise Refuse("denominator is not math.gamma(…)")
    a = den.args[0]
    if not (isinstance(a, ast.BinOp) and isinstance(a.op, ast.Add) and ast.unparse(a.left) == f'2 * {nv}'
            and isinstance(a.right, ast.Constant) and a.right.value in (1, 2)):
        raise Refuse(f"gamma argument {ast.unparse(a)}")
    return sign, a.right.value


def series(tree, name):
    f = find(tree, name)
    if [a.arg for a in f.args.args] != ['X', 'max_order']:
        raise Refuse("parameters")
    b = [s for s in f.body if not (isinstance(s, ast.Expr) and isinstance(s.value, ast.Constant))]
    if len(b) != 5 or not all(isinstance(s, ast.Assign) for s in b[:3]) or not isinstance(b[3], ast.For) or not isinstance(b[4], ast.Return):
        raise Refuse("shape")
    if ast.unparse(b[0].targets[0]) != 'op':
        raise Refuse("op")
    op0 = init_term(b[0].value)
    if ast.unparse(b[1]) not in ('X2 = X * X',):
        raise Refuse("X2 = X*X")
    pname = b[2].targets[0].id
    p0 = init_term(b[2].value)
    loop = b[3]
    if ast.unparse(loop.iter) != 'range(1, max_order)' or len(loop.body) != 2:
        raise Refuse("loop header / body")
    nv = loop.target.id
    if ast.unparse(loop.body[0]) != f'{pname} = {pname} * X2':
        raise Refuse("power update")
    u = loop.body[1]
    if not (isinstance(u, ast.Assign) and ast.unparse(u.targets[0]) == 'op' and isinstance(u.value, ast.BinOp) and isinstance(u.value.op, ast.Add)
            and ast.unparse(u.value.left) == 'op' and isinstance(u.value.right, ast.BinOp) and isinstance(u.value.right.op, ast.Mult)
            and ast.unparse(u.value.right.right) == pname):
        raise Refuse("accumulation is not op = op + c * P")
    sign, c = coef(u.value.right.left, nv)
    if ast.unparse(b[4].value) != 'op':
        raise Refuse("return op")
    return (f"def {name}_series (C : Ctx) (maxOrder : Nat) (x : MV) : MV :=\n  let x2 := C.gp x x\n"
            f"  ((List.range' 1 (maxOrder - 1)).foldl (fun (st : MV × MV) ({nv} : Nat) =>\n    let p := C.gp st.2 x2\n"
            f"    let c : Rat := {sign} / ((Ctx.fact (2 * {nv} + {c - 1}) : Nat) : Rat)\n    (C.add st.1 (C.smul c p), p)) ({op0}, {p0})).1\n")


def exp_series(tree):
    """`exp`: statement by statement (initial value, early return, scaling loops, scaled operand, guarded Taylor loop with `break`,
    repeated squaring); the norm estimate and the update expression are read from the source"""
    f = find(tree, 'exp')
    if [a.arg for a in f.args.args] != ['x', 'max_order']:
        raise Refuse("parameters")
    b = [s for s in f.body if not (isinstance(s, ast.Expr) and isinstance(s.value, ast.Constant))]
    src = [ast.unparse(s) for s in b]
    if len(b) != 11:
        raise Refuse(f"exp has {len(b)} statements, 11 expected")
    one0 = '(C.add C.one (C.smul 0 x))'
    if src[0] != 'result = 1.0 + 0.0 * x' or src[1] != 'if max_order == 0:\n    return result':
        raise Refuse("exp: initial value / early return")
    mv = b[2]
    if not (isinstance(mv, ast.Assign) and ast.unparse(mv.targets[0]) == 'max_val' and isinstance(mv.value, ast.Call) and ast.unparse(mv.value.func) == 'int'
            and len(mv.value.args) == 1):
        raise Refuse("exp: max_val = int(…)")
    est = ast.unparse(mv.value.args[0])
    if est == 'np.sum(np.abs(x.value))':
        norm = "(x.foldl (fun m q => m + q.abs) (0 : Rat)).floor.toNat"
    elif est == 'np.max(np.abs(x.value))':
        norm = "(x.foldl (fun m q => max m q.abs) (0 : Rat)).floor.toNat"
    else:
        raise Refuse(f"exp: norm estimate {est}")
    if src[3] != 'scale = 1' or src[4] != 'if max_val > 1:\n    max_val <<= 1' or src[5] != 'while max_val:\n    max_val >>= 1\n    scale <<= 1':
        raise Refuse("exp: scaling loops")
    if src[6] not in ('scaled = x * (1.0 / scale)', 'scaled = 1.0 / scale * x', 'scaled = x / scale'):
        raise Refuse("exp: scaled operand")
    if src[7] != 'tmp = 1.0 + 0.0 * x':
        raise Refuse("exp: tmp")
    lp = b[8]
    if not (isinstance(lp, ast.For) and ast.unparse(lp.iter) == 'range(1, max_order)' and len(lp.body) == 1 and isinstance(lp.body[0], ast.If)):
        raise Refuse("exp: Taylor loop")
    iv = lp.target.id
    g = lp.body[0]
    if ast.unparse(g.test) != 'np.any(np.abs(tmp.value) > _settings._eps)' or [ast.unparse(z) for z in g.orelse] != ['break']:
        raise Refuse("exp: guard / break")
    body = [ast.unparse(z) for z in g.body]
    upd = {f'tmp = tmp * scaled * (1.0 / {iv})': f"C.smul (1 / (({iv} : Nat) : Rat)) (C.gp tmp scaled)",
           f'tmp = tmp * scaled / {iv}': f"C.smul (1 / (({iv} : Nat) : Rat)) (C.gp tmp scaled)",
           f'tmp = 1.0 / {iv} * (tmp * scaled)': f"C.smul (1 / (({iv} : Nat) : Rat)) (C.gp tmp scaled)"}
    if len(body) != 2 or body[0] not in upd or body[1] not in ('result = result + tmp', 'result += tmp'):
        raise Refuse("exp: update statements")
    if src[9] != 'while scale > 1:\n    result = result * result\n    scale >>= 1' or src[10] != 'return result':
        raise Refuse("exp: squaring loop / return")
    return (f"def exp_scale (maxVal : Nat) : Nat :=\n"
            f"  let mv := if maxVal > 1 then maxVal <<< 1 else maxVal\n"
            f"  let rec go (fuel m sc : Nat) : Nat :=\n    match fuel with\n    | 0 => sc\n    | fuel + 1 => if m = 0 then sc else go fuel (m >>> 1) (sc <<< 1)\n"
            f"  go (mv + 1) mv 1\n"
            f"def exp_series (C : Ctx) (eps : Rat) (maxOrder : Nat) (x : MV) : MV :=\n"
            f"  let result0 := {one0}\n  if maxOrder = 0 then result0 else\n"
            f"  let scale := exp_scale ({norm})\n"
            f"  let scaled := C.smul (1 / (scale : Rat)) x\n"
            f"  let st := (List.range' 1 (maxOrder - 1)).foldl (fun (st : MV × MV × Bool) ({iv} : Nat) =>\n"
            f"    let (res, tmp, stop) := st\n    if stop then st\n"
            f"    else if tmp.any (fun q => decide (q.abs > eps)) then\n"
            f"      let tmp' := {upd[body[0]]}\n      (C.add res tmp', tmp', false)\n"
            f"    else (res, tmp, true)) (result0, result0, false)\n"
            f"  let rec sq (fuel sc : Nat) (r : MV) : MV :=\n    match fuel with\n    | 0 => r\n    | fuel + 1 => if sc > 1 then sq fuel (sc >>> 1) (C.gp r r) else r\n"
            f"  sq (scale + 1) scale st.1\n")


def main():
    repo = Path(sys.argv[sys.argv.index('--repo') + 1]) if '--repo' in sys.argv else Path('/repo')
    out = ["import Model.Series\n\n/-! GENERATED from the current source by translate/series2lean.py — do not edit -/\n"
           "set_option linter.unusedVariables false\nset_option linter.unusedSimpArgs false\nnamespace GenSeries\nopen Model\n\n"]
    status, thms = {}, []
    tree = ast.parse((repo / 'clifford' / 'taylor_expansions.py').read_text())
    for name, model in (('sin', 'oddSeries true'), ('sinh', 'oddSeries false'), ('cos', 'evenSeries true'), ('cosh', 'evenSeries false')):
        key = 'series_' + name
        try:
            out.append(series(tree, name))
            thms.append((key, f"theorem {key}_eq (C : Model.Ctx) (N : Nat) (x : Model.MV) : GenSeries.{name}_series C N x = C.{model} N x := by\n"
                              f"  simp [GenSeries.{name}_series, Model.Ctx.oddSeries, Model.Ctx.evenSeries]\n"))
            status[key] = dict(status='ok')
        except Refuse as r:
            status[key] = dict(status='refused', reason=str(r))
        except Exception as r:
            status[key] = dict(status='refused', reason=repr(r)[:200])
    try:
        out.append(exp_series(tree))
        out.append("end GenSeries\n"
                   "theorem series_exp_go_eq (fuel m sc : Nat) : GenSeries.exp_scale.go fuel m sc = Model.Ctx.expScale.go fuel m sc := by\n"
                   "  induction fuel generalizing m sc with\n  | zero => rfl\n  | succ k ih => simp only [GenSeries.exp_scale.go, Model.Ctx.expScale.go, ih]\n"
                   "theorem series_exp_sq_eq (C : Model.Ctx) (fuel sc : Nat) (r : Model.MV) : GenSeries.exp_series.sq C fuel sc r = Model.Ctx.expSeries.sq C fuel sc r := by\n"
                   "  induction fuel generalizing sc r with\n  | zero => rfl\n  | succ k ih => simp only [GenSeries.exp_series.sq, Model.Ctx.expSeries.sq, ih]\n"
                   "namespace GenSeries\n")
        thms.append(('series_exp',
                     "theorem series_exp_eq (C : Model.Ctx) (eps : Rat) (N : Nat) (x : Model.MV) : GenSeries.exp_series C eps N x = C.expSeries eps N x := by\n"
                     "  have hgo : @GenSeries.exp_scale.go = @Model.Ctx.expScale.go := by funext f m s; exact series_exp_go_eq f m s\n"
                     "  have hsq : @GenSeries.exp_series.sq = @Model.Ctx.expSeries.sq := by funext C f s r; exact series_exp_sq_eq C f s r\n"
                     "  unfold GenSeries.exp_series Model.Ctx.expSeries GenSeries.exp_scale Model.Ctx.expScale Model.Ctx.sumAbsFloor\n"
                     "  rw [hgo, hsq]\n"))
        status['series_exp'] = dict(status='ok')
    except Refuse as r:
        status['series_exp'] = dict(status='refused', reason=str(r))
    except Exception as r:
        status['series_exp'] = dict(status='refused', reason=repr(r)[:200])
    out.append("end GenSeries\n\n")
    names = {}
    for name, t in thms:
        out.append(t + "\n")
    for name, t in thms:
        names[name] = t.split()[1]
        out.append(f"#print axioms {t.split()[1]}\n")
    if '--status' in sys.argv:
        sys.stderr.write(json.dumps(dict(status=status, theorems=names)))
    sys.stdout.write("".join(out))


if __name__ == '__main__':
    main()
