#!/usr/bin/env python3
"""Tie A, tenth slice: the state machine of `parse_multivector` (clifford/_parser.py).

The `if / elif … else: raise` chain inside the token loop is read from the CURRENT source: every branch must have the form
`t == '<kind>' [and last_t is None | and last_t == '<kind>']` (or `t in '()'`), with a body made of

    continue | pass | sign = data | sign *= data | coeff = data | coeff = sign * data |
    mv_out[()] += coeff | mv_out.value[data] += coeff | … += sign | … += 1   (and `warnings.warn(...)`)

followed by `last_t = t` after the chain.  For every pair (token kind, previous kind) the first matching branch gives the
transition; the result is printed as a Lean function on the parser state of `Model/Text.lean`.  Generated theorem: it is
`Text.step` (for the final `end` token: same acceptance and same output coefficients) — the state machine that
`Props/C19.lean` proves inverts the printer and rejects the malformed patterns.  Anything else is REFUSED.
"""
import ast
import json
import sys
from pathlib import Path


class Refuse(Exception):
    pass


KINDS = ['sign', 'coeff', 'blade', 'wedge']
TOKS = ['space', '(', ')', 'sign', 'coeff', 'blade', 'wedge', 'end', 'unrecognized']
LEAN_TOK = {'space': '.space', '(': '.lparen', ')': '.rparen', 'sign': '.sign d', 'coeff': '.coeff d', 'blade': '.blade i', 'wedge': '.wedge',
            'end': '.end_', 'unrecognized': '.unrecognized'}


def parse_test(t):
    """-> (set of token kinds, previous kind | None | 'ANY')"""
    if isinstance(t, ast.Compare) and ast.unparse(t) == "t in '()'":
        return {'(', ')'}, 'ANY'
    if isinstance(t, ast.Compare) and len(t.ops) == 1 and isinstance(t.ops[0], ast.Eq) and ast.unparse(t.left) == 't' \
            and isinstance(t.comparators[0], ast.Constant):
        return {t.comparators[0].value}, 'ANY'
    if isinstance(t, ast.BoolOp) and isinstance(t.op, ast.And) and len(t.values) == 2:
        toks, _ = parse_test(t.values[0])
        p = t.values[1]
        if ast.unparse(p) == 'last_t is None':
            return toks, None
        if isinstance(p, ast.Compare) and len(p.ops) == 1 and isinstance(p.ops[0], ast.Eq) and ast.unparse(p.left) == 'last_t' \
                and isinstance(p.comparators[0], ast.Constant) and p.comparators[0].value in KINDS:
            return toks, p.comparators[0].value
    raise Refuse(f"branch test {ast.unparse(t)}")


def parse_body(body):
    """-> ('continue' | list of (field, lean expr))"""
    upd = []
    for st in body:
        s = ast.unparse(st)
        if s == 'continue':
            return 'continue'
        if s == 'pass' or s.startswith('warnings.warn('):
            continue
        table = {
            'sign = data': ('sign', 'd'), 'sign *= data': ('sign', 'st.sign * d'), 'coeff = data': ('coeff', 'd'),
            'coeff = sign * data': ('coeff', 'st.sign * d'), 'mv_out[()] += coeff': ('out', 'bump st.out sidx st.coeff'),
            'mv_out.value[data] += coeff': ('out', 'bump st.out i st.coeff'), 'mv_out.value[data] += sign': ('out', 'bump st.out i st.sign'),
            'mv_out.value[data] += 1': ('out', 'bump st.out i 1'),
        }
        if s not in table:
            raise Refuse(f"statement {s}")
        f, e = table[s]
        if any(f2 == f for f2, _ in upd):
            raise Refuse(f"field {f} updated twice in one branch")
        # an expression must not read a field this branch already changed
        for f2, _ in upd:
            if f'st.{f2}' in e:
                raise Refuse("a branch reads a field it has just changed")
        upd.append((f, e))
    return upd


def lean_str(x):
    return '"' + x.replace('\\', '\\\\').replace('"', '\\"').replace('\n', '\\n') + '"'


def gen_lexicon(tree):
    """the `re.Scanner([...])` table of `_tokenize`: (pattern expression as written, token kind, payload expression) per rule, in order"""
    fn = [n for n in tree.body if isinstance(n, ast.FunctionDef) and n.name == '_tokenize'][0]
    calls = [n for n in ast.walk(fn) if isinstance(n, ast.Call) and ast.unparse(n.func) == 're.Scanner']
    if len(calls) != 1 or len(calls[0].args) != 1 or not isinstance(calls[0].args[0], ast.List):
        raise Refuse("re.Scanner([...]) not found")
    rows = []
    for el in calls[0].args[0].elts:
        if not (isinstance(el, ast.Tuple) and len(el.elts) == 2 and isinstance(el.elts[1], ast.Lambda)):
            raise Refuse("scanner rule is not (pattern, lambda)")
        pat, lam = el.elts
        if [a.arg for a in lam.args.args] != ['s', 't'] or not (isinstance(lam.body, ast.Tuple) and len(lam.body.elts) == 3):
            raise Refuse("scanner action is not `lambda s, t: (kind, s.match, payload)`")
        kind, m, payload = lam.body.elts
        if not (isinstance(kind, ast.Constant) and isinstance(kind.value, str) and ast.unparse(m) == 's.match'):
            raise Refuse("scanner action")
        rows.append((ast.unparse(pat), kind.value, ast.unparse(payload)))
    ufp = [n for n in tree.body if isinstance(n, ast.Assign) and ast.unparse(n.targets[0]) == '_unsigned_float_pattern']
    if len(ufp) != 1 or not (isinstance(ufp[0].value, ast.Constant) and isinstance(ufp[0].value.value, str)):
        raise Refuse("_unsigned_float_pattern")
    # the map the blade rule looks names up in, the scan call and the closing `end` token
    src = [ast.unparse(x) for x in fn.body]
    want = ["blade_name_index_map = {name: index for index, name in enumerate(layout.names)}", None,
            "tokens, rest = tokenizer.scan(mv_string)", "assert not rest",
            "return tokens + [('end', re.compile('$').match(mv_string, len(mv_string)), None)]"]
    if len(src) != len(want) or any(w is not None and w != g for w, g in zip(want, src)):
        raise Refuse("_tokenize is not: name map; scanner; scan; assert; tokens + end")
    d = ("def lexicon : List (String × String × String) :=\n  [" + ",\n   ".join(f"({lean_str(a)}, {lean_str(b)}, {lean_str(c)})" for a, b, c in rows) + "]\n\n"
         f"def unsignedFloatPattern : String := {lean_str(ufp[0].value.value)}\n\n")
    t = ("/-- the lexicon of `_tokenize` (rules, their order, token kinds, payloads) and the number pattern as the source has them now -/\n"
         "theorem parser_lexicon_eq : GenParse.lexicon = Text.lexicon ∧ GenParse.unsignedFloatPattern = Text.unsignedFloatPattern := by decide\n")
    return d, t


def gen_line_offset(tree):
    """`_match_line_offset`: `pos = m.span()[0]; lines = m.string.split('\\n'); for line_i, line in enumerate(lines, 1): new_pos = E1; if C: return R; pos = new_pos; assert False`"""
    fn = [n for n in tree.body if isinstance(n, ast.FunctionDef) and n.name == '_match_line_offset'][0]
    body = [s for s in fn.body if not (isinstance(s, ast.Expr) and isinstance(s.value, ast.Constant))]
    if len(body) != 4 or ast.unparse(body[0]) != 'pos = m.span()[0]' or ast.unparse(body[1]) != "lines = m.string.split('\\n')" \
            or ast.unparse(body[3]) != 'assert False':
        raise Refuse("_match_line_offset frame")
    loop = body[2]
    if not (isinstance(loop, ast.For) and ast.unparse(loop.target) == '(line_i, line)' and isinstance(loop.iter, ast.Call)
            and ast.unparse(loop.iter.func) == 'enumerate' and ast.unparse(loop.iter.args[0]) == 'lines' and len(loop.iter.args) == 2
            and isinstance(loop.iter.args[1], ast.Constant) and len(loop.body) == 3):
        raise Refuse("loop header / body length")
    start = loop.iter.args[1].value
    a1, cond, a2 = loop.body
    if not (isinstance(a1, ast.Assign) and ast.unparse(a1.targets[0]) == 'new_pos' and isinstance(cond, ast.If) and not cond.orelse
            and len(cond.body) == 1 and isinstance(cond.body[0], ast.Return) and ast.unparse(a2) == 'pos = new_pos'):
        raise Refuse("loop body is not `new_pos = …; if …: return …; pos = new_pos`")

    def ex(e):
        if isinstance(e, ast.Name) and e.id in ('pos', 'new_pos', 'line_i'):
            return {'pos': 'pos', 'new_pos': 'newPos', 'line_i': 'lineI'}[e.id]
        if isinstance(e, ast.Constant) and isinstance(e.value, int):
            return f"({e.value} : Int)"
        if isinstance(e, ast.Call) and ast.unparse(e) == 'len(line)':
            return "(len : Int)"
        if isinstance(e, ast.BinOp) and isinstance(e.op, (ast.Add, ast.Sub)):
            return f"({ex(e.left)} {'+' if isinstance(e.op, ast.Add) else '-'} {ex(e.right)})"
        raise Refuse(f"expression {ast.unparse(e)}")
    t = cond.test
    if not (isinstance(t, ast.Compare) and len(t.ops) == 1 and isinstance(t.ops[0], (ast.Lt, ast.LtE))):
        raise Refuse("loop test")
    ret = cond.body[0].value
    if not (isinstance(ret, ast.Tuple) and len(ret.elts) == 3 and ast.unparse(ret.elts[0]) == 'line_i' and ast.unparse(ret.elts[2]) == 'line'):
        raise Refuse("return value is not (line_i, column, line)")
    d = ("def lineOffset (lineI : Nat) (pos : Int) : List Nat → Option (Nat × Int)\n  | [] => none\n  | len :: rest =>\n"
         f"    let newPos : Int := {ex(a1.value)}\n"
         f"    if {ex(t.left)} {'<' if isinstance(t.ops[0], ast.Lt) else '≤'} {ex(t.comparators[0])} then some (lineI, {ex(ret.elts[1])}) else lineOffset (lineI + 1) newPos rest\n\n"
         f"def lineOffsetStart : Nat := {start}\n\n")
    np_e = ex(a1.value)
    ret_e = ex(ret.elts[1]).replace('newPos', np_e)
    plain = ("simp only [GenParse.lineOffset, Text.lineOffset, ih]; first | done | rfl | (split <;> split <;> first | rfl | omega | (exfalso; omega))")
    th = ("/-- `_match_line_offset` as the source has it now is the loop `Text.lineOffset_spec` (C19.error_line_and_column) is about, started at line 1 -/\n"
          "theorem parser_line_offset_eq (i : Nat) (pos : Int) (ls : List Nat) : GenParse.lineOffset i pos ls = Text.lineOffset i pos ls ∧ GenParse.lineOffsetStart = 1 := by\n"
          "  refine ⟨?_, rfl⟩\n  induction ls generalizing i pos with\n  | nil => rfl\n  | cons len t ih =>\n"
          f"    first\n    | ({plain})\n"
          f"    | (have hnp : {np_e} = pos - (len : Int) - 1 := by omega\n"
          f"       have hret : {ret_e} = pos + 1 := by omega\n"
          "       simp only [GenParse.lineOffset, Text.lineOffset, hnp, hret, ih]\n"
          "       first | done | rfl | (split <;> split <;> first | rfl | omega | (exfalso; omega)))\n")
    return d, th


def main():
    repo = Path(sys.argv[sys.argv.index('--repo') + 1]) if '--repo' in sys.argv else Path('/repo')
    out = ["import Model.Text\n\n/-! GENERATED from the current source by translate/parser2lean.py — do not edit -/\n"
           "set_option linter.unusedVariables false\nset_option linter.unusedSimpArgs false\nnamespace GenParse\nopen Text\n\n"]
    status, thms = {}, []
    try:
        tree = ast.parse((repo / 'clifford' / '_parser.py').read_text())
        f = [n for n in tree.body if isinstance(n, ast.FunctionDef) and n.name == 'parse_multivector'][0]
        body = [s for s in f.body if not (isinstance(s, ast.Expr) and isinstance(s.value, ast.Constant))]
        inits = [ast.unparse(s) for s in body if isinstance(s, ast.Assign)]
        for need in ('sign = None', 'coeff = None', 'last_t = None', 'mv_out = MultiVector(layout)'):
            if need not in inits:
                raise Refuse(f"initialisation `{need}` not found")
        loops = [s for s in body if isinstance(s, ast.For)]
        if len(loops) != 1 or ast.unparse(loops[0].target) != '(t, m, data)' or ast.unparse(loops[0].iter) != '_tokenize(layout, mv_string)':
            raise Refuse("token loop")
        lb = loops[0].body
        if len(lb) != 2 or not isinstance(lb[0], ast.If) or ast.unparse(lb[1]) != 'last_t = t':
            raise Refuse("loop body is not `if-chain; last_t = t`")
        if ast.unparse(body[-1]) != 'return mv_out':
            raise Refuse("return mv_out")
        branches = []
        node = lb[0]
        while True:
            branches.append((parse_test(node.test), parse_body(node.body)))
            if len(node.orelse) == 1 and isinstance(node.orelse[0], ast.If):
                node = node.orelse[0]
            else:
                if not (len(node.orelse) == 1 and isinstance(node.orelse[0], ast.Raise)):
                    raise Refuse("the chain does not end in `else: raise`")
                break
        lines = ["def step (sidx : Nat) (st : St) : Tok → Option St"]
        for tok in TOKS:
            cases = []
            for last in [None] + KINDS:
                act = None
                for (toks, prev), b in branches:
                    if tok in toks and (prev == 'ANY' or prev == last):
                        act = b
                        break
                lk = 'none' if last is None else f'some .{last}'
                if act is None:
                    cases.append((lk, 'none'))
                elif act == 'continue':
                    cases.append((lk, 'some st'))
                else:
                    newlast = 'none' if tok == 'end' else f'some .{tok}'
                    flds = ", ".join(f"{f} := {e}" for f, e in act)
                    flds = (flds + ", " if flds else "") + f"last := {newlast}"
                    cases.append((lk, f"some {{ st with {flds} }}"))
            if all(c[1] == cases[0][1] for c in cases):
                lines.append(f"  | {LEAN_TOK[tok]} => {cases[0][1]}")
            else:
                lines.append(f"  | {LEAN_TOK[tok]} =>\n      match st.last with\n" + "\n".join(f"      | {lk} => {rhs}" for lk, rhs in cases))
        out.append("\n".join(lines) + "\n")
        thms.append(('parser_step',
                     "theorem parser_step_eq (sidx : Nat) (st : Text.St) (tok : Text.Tok) : (tok ≠ .end_ → GenParse.step sidx st tok = Text.step sidx st tok)\n"
                     "    ∧ (GenParse.step sidx st .end_).map (·.out) = (Text.step sidx st .end_).map (·.out) := by\n"
                     "  obtain ⟨sg, cf, last, o⟩ := st\n  constructor\n"
                     "  · intro hne\n    cases tok <;> first\n      | (exact absurd rfl hne)\n      | rfl\n"
                     "      | (cases last with\n         | none => rfl\n         | some k => cases k <;> rfl)\n"
                     "  · cases last with\n    | none => rfl\n    | some k => cases k <;> rfl\n"))
        status['parser_step'] = dict(status='ok')
    except Refuse as r:
        status['parser_step'] = dict(status='refused', reason=str(r))
    except Exception as r:
        status['parser_step'] = dict(status='refused', reason=repr(r)[:200])
    for nm, g in (('parser_lexicon', gen_lexicon), ('parser_line_offset', gen_line_offset)):
        try:
            tree2 = ast.parse((repo / 'clifford' / '_parser.py').read_text())
            d_, t_ = g(tree2)
            out.append(d_)
            thms.append((nm, t_))
            status[nm] = dict(status='ok')
        except Refuse as r:
            status[nm] = dict(status='refused', reason=str(r))
        except Exception as r:
            status[nm] = dict(status='refused', reason=repr(r)[:200])
    out.append("end GenParse\n\n")
    names = {}
    for name, t in thms:
        out.append(t + "\n")
        tn = [l.split()[1] for l in t.splitlines() if l.startswith('theorem ')][-1]
        names[name] = tn
        out.append(f"#print axioms {tn}\n")
    if '--status' in sys.argv:
        sys.stderr.write(json.dumps(dict(status=status, theorems=names)))
    sys.stdout.write("".join(out))


if __name__ == '__main__':
    main()
