#!/usr/bin/env python3
"""Tie A, tenth slice: the state machine of `parse_multivector` (clifford/_parser.py).

The `if / elif … else: raise` chain inside the token loop is read from the CURRENT source: every branch must have the form
`t == '<kind>' [and last_t is None | and last_t == '<kind>']` (or `t in '()'`), with a body made of

    continue | pass | sign = data | sign *= data | coeff = data | coeff = sign * data |
    mv_out[()] += coeff | mv_out.value[data] += coeff | … += sign | … += 1   (and `warnings.warn(...)`)

followed by `last_t = t` after the chain.  For every pair (token kind, previous kind) the first matching branch gives the
transition; the result is printed as a Lean function on the parser state of `Model/Text.lean`.  Generated theorem: it is
`Text.step` (for the final `end` token: same acceptance and same output coefficients) — the state machine that
`Props/C19.lean` proves inverts the printer and rejects the malformed patterns.  Anything else is REFUSED.
"""
import ast
import json
import sys
from pathlib import Path


class Refuse(Exception):
    pass


KINDS = ['sign', 'coeff', 'blade', 'wedge']
TOKS = ['space', '(', ')', 'sign', 'coeff', 'blade', 'wedge', 'end', 'unrecognized']
LEAN_TOK = {'space': '.space', '(': '.lparen', ')': '.rparen', 'sign': '.sign d', 'coeff': '.coeff d', 'blade': '.blade i', 'wedge': '.wedge',
            'end': '.end_', 'unrecognized': '.unrecognized'}


def parse_test(t):
    """-> (set of token kinds, previous kind | None | 'ANY')"""
    if isinstance(t, ast.Compare) and ast.unparse(t) == "t in '()'":
        return {'(', ')'}, 'ANY'
    if isinstance(t, ast.Compare) and len(t.ops) == 1 and isinstance(t.ops[0], ast.Eq) and ast.unparse(t.left) == 't' \
            and isinstance(t.comparators[0], ast.Constant):
        return {t.comparators[0].value}, 'ANY'
    if isinstance(t, ast.BoolOp) and isinstance(t.op, ast.And) and len(t.values) == 2:
        toks, _ = parse_test(t.values[0])
        p = t.values[1]
        if ast.unparse(p) == 'last_t is None':
            return toks, None
        if isinstance(p, ast.Compare) and len(p.ops) == 1 and isinstance(p.ops[0], ast.Eq) and ast.unparse(p.left) == 'last_t' \
                and isinstance(p.comparators[0], ast.Constant) and p.comparators[0].value in KINDS:
            return toks, p.comparators[0].value
    raise Refuse(f"branch test {ast.unparse(t)}")


def parse_body(body):
    """-> ('continue' | list of (field, lean expr))"""
    upd = []
    for st in body:
        s = ast.unparse(st)
        if s == 'continue':
            return 'continue'
        if s == 'pass' or s.startswith('warnings.warn('):
            continue
        table = {
            'sign = data': ('sign', 'd'), 'sign *= data': ('sign', 'st.sign * d'), 'coeff = data': ('coeff', 'd'),
            'coeff = sign * data': ('coeff', 'st.sign * d'), 'mv_out[()] += coeff': ('out', 'bump st.out sidx st.coeff'),
            'mv_out.value[data] += coeff': ('out', 'bump st.out i st.coeff'), 'mv_out.value[data] += sign': ('out', 'bump st.out i st.sign'),
            'mv_out.value[data] += 1': ('out', 'bump st.out i 1'),
        }
        if s not in table:
            raise Refuse(f"statement {s}")
        f, e = table[s]
        if any(f2 == f for f2, _ in upd):
            raise Refuse(f"field {f} updated twice in one branch")
        # an expression must not read a field this branch already changed
        for f2, _ in upd:
            if f'st.{f2}' in e:
                raise Refuse("a branch reads a field it has just changed")
        upd.append((f, e))
    return upd


def main():
    repo = Path(sys.argv[sys.argv.index('--repo') + 1]) if '--repo' in sys.argv else Path('/repo')
    out = ["import Model.Text\n\n/-! GENERATED from the current source by translate/parser2lean.py — do not edit -/\n"
           "set_option linter.unusedVariables false\nset_option linter.unusedSimpArgs false\nnamespace GenParse\nopen Text\n\n"]
    status, thms = {}, []
    try:
        tree = ast.parse((repo / 'clifford' / '_parser.py').read_text())
        f = [n for n in tree.body if isinstance(n, ast.FunctionDef) and n.name == 'parse_multivector'][0]
        body = [s for s in f.body if not (isinstance(s, ast.Expr) and isinstance(s.value, ast.Constant))]
        inits = [ast.unparse(s) for s in body if isinstance(s, ast.Assign)]
        for need in ('sign = None', 'coeff = None', 'last_t = None', 'mv_out = MultiVector(layout)'):
            if need not in inits:
                raise Refuse(f"initialisation `{need}` not found")
        loops = [s for s in body if isinstance(s, ast.For)]
        if len(loops) != 1 or ast.unparse(loops[0].target) != '(t, m, data)' or ast.unparse(loops[0].iter) != '_tokenize(layout, mv_string)':
            raise Refuse("token loop")
        lb = loops[0].body
        if len(lb) != 2 or not isinstance(lb[0], ast.If) or ast.unparse(lb[1]) != 'last_t = t':
            raise Refuse("loop body is not `if-chain; last_t = t`")
        if ast.unparse(body[-1]) != 'return mv_out':
            raise Refuse("return mv_out")
        branches = []
        node = lb[0]
        while True:
            branches.append((parse_test(node.test), parse_body(node.body)))
            if len(node.orelse) == 1 and isinstance(node.orelse[0], ast.If):
                node = node.orelse[0]
            else:
                if not (len(node.orelse) == 1 and isinstance(node.orelse[0], ast.Raise)):
                    raise Refuse("the chain does not end in `else: raise`")
                break
        lines = ["def step (sidx : Nat) (st : St) : Tok → Option St"]
        for tok in TOKS:
            cases = []
            for last in [None] + KINDS:
                act = None
                for (toks, prev), b in branches:
                    if tok in toks and (prev == 'ANY' or prev == last):
                        act = b
                        break
                lk = 'none' if last is None else f'some .{last}'
                if act is None:
                    cases.append((lk, 'none'))
                elif act == 'continue':
                    cases.append((lk, 'some st'))
                else:
                    newlast = 'none' if tok == 'end' else f'some .{tok}'
                    flds = ", ".join(f"{f} := {e}" for f, e in act)
                    flds = (flds + ", " if flds else "") + f"last := {newlast}"
                    cases.append((lk, f"some {{ st with {flds} }}"))
            if all(c[1] == cases[0][1] for c in cases):
                lines.append(f"  | {LEAN_TOK[tok]} => {cases[0][1]}")
            else:
                lines.append(f"  | {LEAN_TOK[tok]} =>\n      match st.last with\n" + "\n".join(f"      | {lk} => {rhs}" for lk, rhs in cases))
        out.append("\n".join(lines) + "\n")
        thms.append(('parser_step',
                     "theorem parser_step_eq (sidx : Nat) (st : Text.St) (tok : Text.Tok) : (tok ≠ .end_ → GenParse.step sidx st tok = Text.step sidx st tok)\n"
                     "    ∧ (GenParse.step sidx st .end_).map (·.out) = (Text.step sidx st .end_).map (·.out) := by\n"
                     "  obtain ⟨sg, cf, last, o⟩ := st\n  constructor\n"
                     "  · intro hne\n    cases tok <;> first\n      | (exact absurd rfl hne)\n      | rfl\n"
                     "      | (cases last with\n         | none => rfl\n         | some k => cases k <;> rfl)\n"
                     "  · cases last with\n    | none => rfl\n    | some k => cases k <;> rfl\n"))
        status['parser_step'] = dict(status='ok')
    except Refuse as r:
        status['parser_step'] = dict(status='refused', reason=str(r))
    except Exception as r:
        status['parser_step'] = dict(status='refused', reason=repr(r)[:200])
    out.append("end GenParse\n\n")
    names = {}
    for name, t in thms:
        out.append(t + "\n")
        names[name] = t.split()[1]
        out.append(f"#print axioms {t.split()[1]}\n")
    if '--status' in sys.argv:
        sys.stderr.write(json.dumps(dict(status=status, theorems=names)))
    sys.stdout.write("".join(out))


if __name__ == '__main__':
    main()
