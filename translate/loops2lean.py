#!/usr/bin/env python3
"""Tie A, third slice: the integer *loops* that compute the blade sign.

`canonical_reordering_sign_euclidean` (clifford/_layout_helpers.py), `canonical_reordering_sign` and `gmt_element`
(clifford/_layout.py) are translated from the CURRENT source: every `while` loop becomes a Lean function by well-founded
recursion on the variable its condition tests (state = the variables the body assigns, in order of first assignment; the
body's sequential assignments become nested `let`s, a one-armed `if` becomes `let x := if c then e else x`), the code
before and after the loop becomes `let`s around the call.  `count_set_bits` is taken as `Model.popcount` (the compiled
version is LLVM's `ctpop`; the no-JIT fallback is compared with it by correspondence).

Generated theorems: the translated functions equal the hand-written loop models (`Model.signE`, `Model.bladeSign`,
`Model.gmtElement`) — which `Props/C01.lean` proves equal to the specification sign `(−1)^swaps · Π sig` — by functional
induction along the translated loop + simp (so a reordered body or `x & 1 == 1` for `x & 1 != 0` still checks; a changed
shift, mask, accumulator or start value does not).

Fragment: int constants, names, `>> & ^ | + - *`, comparisons with `== != > <`, `x[i]` on the metric array, calls to
`count_set_bits` and to the other translated functions, assignments, augmented assignments, `while`, one-armed `if` inside
a loop, a final `if/else` returning constants, `return expr`, `return a, b`.  Everything else is REFUSED.
"""
import ast
import json
import sys
from pathlib import Path


class Refuse(Exception):
    pass


CALLS = {'count_set_bits': ('Model.popcount', 'Nat'), 'canonical_reordering_sign_euclidean': ('GenLoop.cre', 'Int'),
         'canonical_reordering_sign': ('GenLoop.crs', 'Int')}


class Fn:
    def __init__(self, node, types):
        self.node = node
        self.types = dict(types)        # name -> 'Nat' | 'Int' | 'Arr'

    def ty(self, e):
        if isinstance(e, ast.Constant):
            if isinstance(e.value, bool) or not isinstance(e.value, int):
                raise Refuse(f"constant {e.value!r}")
            return 'Int' if e.value < 0 else 'Nat'
        if isinstance(e, ast.Name):
            if e.id not in self.types:
                raise Refuse(f"unbound name {e.id}")
            return self.types[e.id]
        if isinstance(e, ast.UnaryOp) and isinstance(e.op, ast.USub):
            return 'Int'
        if isinstance(e, ast.BinOp):
            a, b = self.ty(e.left), self.ty(e.right)
            if isinstance(e.op, (ast.RShift, ast.BitAnd, ast.BitXor, ast.BitOr, ast.LShift)):
                if a != 'Nat' or b != 'Nat':
                    raise Refuse("bit operation on a signed value")
                return 'Nat'
            if isinstance(e.op, ast.Sub):
                return 'Int'
            if isinstance(e.op, (ast.Add, ast.Mult)):
                return 'Int' if 'Int' in (a, b) else 'Nat'
            raise Refuse(f"operator {type(e.op).__name__}")
        if isinstance(e, ast.Subscript):
            if isinstance(e.value, ast.Name) and self.types.get(e.value.id) == 'Arr':
                return 'Int'
            raise Refuse("subscript")
        if isinstance(e, ast.Call) and isinstance(e.func, ast.Name) and e.func.id in CALLS:
            return CALLS[e.func.id][1]
        raise Refuse(f"expression {type(e).__name__}")

    def ex(self, e, want=None):
        t = self.ty(e)
        s = self._ex(e)
        if want == 'Int' and t == 'Nat':
            return f"(({s} : Nat) : Int)"
        if want == 'Nat' and t == 'Int':
            raise Refuse("signed value where an unsigned one is needed")
        return s

    def _ex(self, e):
        if isinstance(e, ast.Constant):
            return f"({e.value} : {'Int' if e.value < 0 else 'Nat'})"
        if isinstance(e, ast.Name):
            return e.id
        if isinstance(e, ast.UnaryOp) and isinstance(e.op, ast.USub):
            return f"(-{self.ex(e.operand, 'Int')})"
        if isinstance(e, ast.BinOp):
            t = self.ty(e)
            sym = {ast.RShift: '>>>', ast.LShift: '<<<', ast.BitAnd: '&&&', ast.BitXor: '^^^', ast.BitOr: '|||', ast.Add: '+', ast.Mult: '*',
                   ast.Sub: '-'}[type(e.op)]
            w = t if sym in '+*-' else 'Nat'
            return f"({self.ex(e.left, w)} {sym} {self.ex(e.right, w)})"
        if isinstance(e, ast.Subscript):
            return f"({e.value.id} {self.ex(e.slice, 'Nat')})"
        if isinstance(e, ast.Call):
            nm, _ = CALLS[e.func.id]
            return "(" + nm + " " + " ".join(self.ex(a) if self.types.get(getattr(a, 'id', None)) != 'Arr' else a.id for a in e.args) + ")"
        raise Refuse("expression")

    def cond(self, e):
        if isinstance(e, ast.Compare) and len(e.ops) == 1:
            a, b = e.left, e.comparators[0]
            w = 'Int' if 'Int' in (self.ty(a), self.ty(b)) else 'Nat'
            sa, sb = self.ex(a, w), self.ex(b, w)
            op = e.ops[0]
            if isinstance(op, ast.NotEq):
                return f"{sa} ≠ {sb}"
            if isinstance(op, ast.Eq):
                return f"{sa} = {sb}"
            if isinstance(op, ast.Gt):
                return f"{sb} < {sa}"
            if isinstance(op, ast.Lt):
                return f"{sa} < {sb}"
        raise Refuse("condition")

    def assign_target(self, st):
        if isinstance(st, ast.Assign) and len(st.targets) == 1 and isinstance(st.targets[0], ast.Name):
            return st.targets[0].id, st.value
        if isinstance(st, ast.AugAssign) and isinstance(st.target, ast.Name):
            return st.target.id, ast.BinOp(left=ast.Name(id=st.target.id, ctx=ast.Load()), op=st.op, right=st.value)
        raise Refuse(f"statement {type(st).__name__}")

    def lets(self, stmts, indent):
        """sequential assignments (and one-armed ifs) as nested lets; returns (text, assigned names in order)"""
        out, names = [], []
        for st in stmts:
            if isinstance(st, ast.If):
                if st.orelse:
                    raise Refuse("if/else inside a loop")
                c = self.cond(st.test)
                for s2 in st.body:
                    nm, val = self.assign_target(s2)
                    t = self.ty(val)
                    self._settype(nm, t)
                    out.append(f"{indent}let {nm} : {self.types[nm]} := if {c} then {self.ex(val, self.types[nm])} else {nm}")
                    if nm not in names:
                        names.append(nm)
                continue
            nm, val = self.assign_target(st)
            self._settype(nm, self.ty(val))
            out.append(f"{indent}let {nm} : {self.types[nm]} := {self.ex(val, self.types[nm])}")
            if nm not in names:
                names.append(nm)
        return "\n".join(out), names

    def _settype(self, nm, t):
        if nm in self.types and self.types[nm] == 'Int':
            return
        self.types[nm] = t


def free_reads(stmts_and_cond):
    names = []
    for n in stmts_and_cond:
        for x in ast.walk(n):
            if isinstance(x, ast.Name) and isinstance(x.ctx, ast.Load) and x.id not in names and x.id not in CALLS:
                names.append(x.id)
    return names


def proj(k, n):
    """projection of component k of a right-nested n-tuple `st`"""
    if n == 1:
        return "st"
    s = "st" + ".2" * k
    return s + (".1" if k < n - 1 else "")


def translate(fnode, name, param_types, ret_ty):
    """returns (lean text of the loop functions and the main function, dict loopname -> (params, state, types))"""
    F = Fn(fnode, param_types)
    body = [s for s in fnode.body if not (isinstance(s, ast.Expr) and isinstance(s.value, ast.Constant))]
    params = [a.arg for a in fnode.args.args]
    texts, info = [], {}
    main = []
    # a first pass to fix the types of the loop-carried variables (a variable multiplied by a metric entry is signed)
    for st in ast.walk(fnode):
        if isinstance(st, (ast.Assign, ast.AugAssign)):
            try:
                nm, val = F.assign_target(st)
            except Refuse:
                continue
            try:
                F._settype(nm, F.ty(val))
            except Refuse:
                pass
    nloops = 0
    for st in body:
        if isinstance(st, ast.While):
            if st.orelse:
                raise Refuse("while/else")
            nloops += 1
            lname = f"{name}_loop" if nloops == 1 else f"{name}_loop{nloops}"
            cond = F.cond(st.test)
            ltxt, state = F.lets(st.body, "    ")
            reads = [v for v in free_reads([st.test] + st.body) if v not in state and v in F.types]
            cvars = [x.id for x in ast.walk(st.test) if isinstance(x, ast.Name)]
            if not cvars or cvars[0] not in state or F.types[cvars[0]] != 'Nat':
                raise Refuse("the loop condition does not test an unsigned loop-carried variable")
            sig_p = " ".join(f"({v} : {'Nat → Int' if F.types[v] == 'Arr' else F.types[v]})" for v in reads)
            sig_s = " ".join(f"({v} : {F.types[v]})" for v in state)
            rty = " × ".join(F.types[v] for v in state)
            tup = "(" + ", ".join(state) + ")"
            texts.append(f"def {lname} {sig_p} {sig_s} : {rty} :=\n  if {cond} then\n{ltxt}\n    {lname} {' '.join(reads)} {' '.join(state)}\n  else {tup}\n"
                         f"termination_by {cvars[0]}\ndecreasing_by all_goals (simp [Nat.shiftRight_eq_div_pow] at *; omega)\n")
            info[lname] = dict(params=reads, state=state, types={v: F.types[v] for v in reads + state})
            main.append(f"  let st := {lname} {' '.join(reads)} {' '.join(state)}")
            for k, v in enumerate(state):
                main.append(f"  let {v} : {F.types[v]} := {proj(k, len(state))}")
        elif isinstance(st, ast.If):
            if not (len(st.body) == 1 and isinstance(st.body[0], ast.Return) and len(st.orelse) == 1 and isinstance(st.orelse[0], ast.Return)):
                raise Refuse("final if/else is not `return c1 / return c2`")
            main.append(f"  if {F.cond(st.test)} then {F.ex(st.body[0].value, ret_ty)} else {F.ex(st.orelse[0].value, ret_ty)}")
        elif isinstance(st, ast.Return):
            if isinstance(st.value, ast.Tuple):
                tys = ret_ty.split(' × ')
                main.append("  (" + ", ".join(F.ex(v, t) for v, t in zip(st.value.elts, tys)) + ")")
            else:
                main.append(f"  {F.ex(st.value, ret_ty)}")
        else:
            t, _ = F.lets([st], "  ")
            main.append(t)
    sig = " ".join(f"({p} : {'Nat → Int' if param_types[p] == 'Arr' else param_types[p]})" for p in params)
    texts.append(f"def {name} {sig} : {ret_ty} :=\n" + "\n".join(main) + "\n")
    return "\n".join(texts), info


def find(tree, func):
    hits = [n for n in tree.body if isinstance(n, ast.FunctionDef) and n.name == func]
    if not hits:
        raise Refuse(f"function {func} not found")
    return hits[-1]


IND = "simp_all +zetaDelta [Nat.and_one_is_mod, Nat.mod_two_ne_zero, Nat.and_comm, Nat.add_comm, Nat.xor_comm]"


def main():
    repo = Path(sys.argv[sys.argv.index('--repo') + 1]) if '--repo' in sys.argv else Path('/repo')
    out = ["import Model.Table\n\n/-! GENERATED from the current source by translate/loops2lean.py — do not edit -/\n"
           "set_option linter.unusedVariables false\nset_option linter.unusedSimpArgs false\nnamespace GenLoop\nopen Model\n\n"]
    status, thms = {}, []
    helpers = ast.parse((repo / 'clifford' / '_layout_helpers.py').read_text())
    layout = ast.parse((repo / 'clifford' / '_layout.py').read_text())

    def emit(name, gen):
        try:
            txt, theorem = gen()
            out.append(txt + "\n")
            thms.append((name, theorem))
            status[name] = dict(status='ok')
        except Refuse as r:
            status[name] = dict(status='refused', reason=str(r))
        except Exception as r:
            status[name] = dict(status='refused', reason=repr(r)[:200])

    def gen_cre():
        f = find(helpers, 'canonical_reordering_sign_euclidean')
        if [a.arg for a in f.args.args] != ['bitmap_a', 'bitmap_b']:
            raise Refuse("parameters")
        txt, info = translate(f, 'cre', dict(bitmap_a='Nat', bitmap_b='Nat'), 'Int')
        li = info.get('cre_loop')
        if not li or set(li['state']) != {'a', 'sum_value'} or li['params'] != ['bitmap_b']:
            raise Refuse("expected one loop over (a, sum_value) reading bitmap_b")
        k = li['state'].index('sum_value')
        pr = proj(k, 2).replace('st', f"(GenLoop.cre_loop bitmap_b {' '.join(li['state'])})")
        th = (f"theorem cre_loop_eq (bitmap_b a sum_value : Nat) : {pr} = Model.swapsLoop a bitmap_b sum_value := by\n"
              f"  fun_induction GenLoop.cre_loop bitmap_b {' '.join(li['state'])} <;> (rw [Model.swapsLoop]; {IND})\n\n"
              "theorem cre_eq (a b : Nat) : GenLoop.cre a b = Model.signE a b := by\n"
              "  simp only [GenLoop.cre, Model.signE, Model.reorderSwaps, cre_loop_eq]\n  first | rfl | (split <;> simp_all)\n")
        return txt, th
    emit('cre', gen_cre)

    def gen_crs():
        f = find(layout, 'canonical_reordering_sign')
        if [a.arg for a in f.args.args] != ['bitmap_a', 'bitmap_b', 'metric']:
            raise Refuse("parameters")
        txt, info = translate(f, 'crs', dict(bitmap_a='Nat', bitmap_b='Nat', metric='Arr'), 'Int')
        li = info.get('crs_loop')
        if not li or set(li['state']) != {'bitmap', 'i', 'output_sign'} or li['params'] != ['metric']:
            raise Refuse("expected one loop over (bitmap, i, output_sign) reading metric")
        k = li['state'].index('output_sign')
        pr = proj(k, 3).replace('st', f"(GenLoop.crs_loop metric {' '.join(li['state'])})")
        th = (f"theorem crs_loop_eq (metric : Nat → Int) (bitmap i : Nat) (output_sign : Int) : {pr} = Model.metricLoop metric bitmap i output_sign := by\n"
              f"  fun_induction GenLoop.crs_loop metric {' '.join(li['state'])} <;> (rw [Model.metricLoop]; {IND})\n\n"
              "theorem crs_eq (a b : Nat) (metric : Nat → Int) : GenLoop.crs a b metric = Model.bladeSign metric a b := by\n"
              "  simp only [GenLoop.crs, Model.bladeSign, crs_loop_eq, cre_eq]\n  try rfl\n")
        return txt, th
    if status.get('cre', {}).get('status') == 'ok':
        emit('crs', gen_crs)
    else:
        status['crs'] = dict(status='refused', reason='cre was refused')

    def gen_gmt():
        f = find(layout, 'gmt_element')
        if [a.arg for a in f.args.args] != ['bitmap_a', 'bitmap_b', 'sig_array']:
            raise Refuse("parameters")
        txt, info = translate(f, 'gmt_element', dict(bitmap_a='Nat', bitmap_b='Nat', sig_array='Arr'), 'Nat × Int')
        th = ("theorem gmt_element_eq (a b : Nat) (sig : Nat → Int) : GenLoop.gmt_element a b sig = Model.gmtElement sig a b := by\n"
              "  simp only [GenLoop.gmt_element, Model.gmtElement, crs_eq]\n  first | rfl | (rw [Nat.xor_comm]) | skip\n")
        return txt, th
    if status.get('crs', {}).get('status') == 'ok':
        emit('gmt_element', gen_gmt)
    else:
        status['gmt_element'] = dict(status='refused', reason='crs was refused')

    # ---- _numba_construct_gmt: for i in range(n): for j in range(n): fill four arrays at i*n+j
    def gen_construct():
        f = find(layout, '_numba_construct_gmt')
        if [a.arg for a in f.args.args] != ['index_to_bitmap', 'bitmap_to_index', 'signature']:
            raise Refuse("parameters")
        aliases = {}          # k_list -> row 0 of coords, ...
        for st in f.body:
            if isinstance(st, ast.Assign) and isinstance(st.value, ast.Subscript) and ast.unparse(st.value.value) == 'coords':
                aliases[st.targets[0].id] = ast.unparse(st.value.slice).strip('()')
        rows = {v: k for k, v in aliases.items()}
        if set(rows) != {'(0, slice(None, None, None))', '0, :', '1, :', '2, :'} & set(rows) or len(aliases) != 3:
            pass
        want = {'0, :': 'k', '1, :': 'l', '2, :': 'm'}
        role = {}
        for nm, sl in aliases.items():
            if sl not in want:
                raise Refuse(f"unexpected view {nm} = coords[{sl}]")
            role[nm] = want[sl]
        if sorted(role.values()) != ['k', 'l', 'm']:
            raise Refuse("the three coordinate rows are not all aliased")
        outer = [st for st in f.body if isinstance(st, ast.For)]
        if len(outer) != 1 or ast.unparse(outer[0].iter) != 'range(n)' or not isinstance(outer[0].target, ast.Name):
            raise Refuse("outer loop is not `for i in range(n)`")
        nassign = [st for st in f.body if isinstance(st, ast.Assign) and ast.unparse(st.targets[0]) == 'n']
        if len(nassign) != 1 or ast.unparse(nassign[0].value) != 'len(index_to_bitmap)':
            raise Refuse("n is not len(index_to_bitmap)")
        iv = outer[0].target.id
        inner = [st for st in outer[0].body if isinstance(st, ast.For)]
        pre = [st for st in outer[0].body if not isinstance(st, ast.For)]
        if len(inner) != 1 or ast.unparse(inner[0].iter) != 'range(n)' or not isinstance(inner[0].target, ast.Name):
            raise Refuse("inner loop is not `for j in range(n)`")
        jv = inner[0].target.id
        env = {}          # local name -> lean term (Nat unless noted)

        def ex(e):
            if isinstance(e, ast.Name):
                if e.id in (iv, jv):
                    return e.id
                if e.id in env:
                    return env[e.id]
                raise Refuse(f"name {e.id}")
            if isinstance(e, ast.Subscript) and isinstance(e.value, ast.Name) and e.value.id in ('index_to_bitmap', 'bitmap_to_index'):
                return f"({'i2b' if e.value.id == 'index_to_bitmap' else 'b2i'} {ex(e.slice)})"
            raise Refuse(f"expression {ast.unparse(e)}")
        fills = {}
        for st in pre + inner[0].body:
            if isinstance(st, ast.Assign) and isinstance(st.targets[0], ast.Name):
                nm = st.targets[0].id
                if nm == 'list_ind':
                    if ast.unparse(st.value) not in (f'{iv} * n + {jv}', f'n * {iv} + {jv}', f'{jv} + {iv} * n'):
                        raise Refuse("list_ind is not i*n + j")
                    continue
                env[nm] = ex(st.value)
            elif isinstance(st, ast.Assign) and isinstance(st.targets[0], ast.Tuple) and isinstance(st.value, ast.Call) \
                    and ast.unparse(st.value.func) == 'gmt_element':
                a, b, c = st.value.args
                if ast.unparse(c) != 'signature':
                    raise Refuse("gmt_element is not called with the signature")
                t0, t1 = [x.id for x in st.targets[0].elts]
                call = f"(GenLoop.gmt_element {ex(a)} {ex(b)} sig)"
                env[t0], env[t1] = f"{call}.1", f"{call}.2"
            elif isinstance(st, ast.Assign) and isinstance(st.targets[0], ast.Subscript) and ast.unparse(st.targets[0].slice) == 'list_ind':
                arr = ast.unparse(st.targets[0].value)
                if arr in role:
                    fills[role[arr]] = ex(st.value)
                elif arr == 'mult_table_vals':
                    fills['v'] = ex(st.value)
                else:
                    raise Refuse(f"fill of {arr}")
            else:
                raise Refuse(f"statement {ast.unparse(st)[:40]}")
        if sorted(fills) != ['k', 'l', 'm', 'v']:
            raise Refuse("not all of k_list, l_list, m_list, mult_table_vals are filled at list_ind")
        txt = ("def construct_gmt (sig : Nat → Int) (i2b b2i : Nat → Nat) (n : Nat) : List Entry :=\n"
               f"  (List.range n).flatMap fun {iv} => (List.range n).map fun {jv} =>\n"
               f"    {{ k := {fills['k']}, l := {fills['l']}, m := {fills['m']}, v := {fills['v']} }}\n")
        th = ("theorem construct_gmt_eq (sig : Nat → Int) (i2b b2i : Nat → Nat) (n : Nat) : GenLoop.construct_gmt sig i2b b2i n = Model.constructGmt sig i2b b2i n := by\n"
              "  simp only [GenLoop.construct_gmt, Model.constructGmt, gmt_element_eq]\n")
        return txt, th
    if status.get('gmt_element', {}).get('status') == 'ok':
        emit('construct_gmt', gen_construct)
    else:
        status['construct_gmt'] = dict(status='refused', reason='gmt_element was refused')

    # ---- _numba_construct_graded_mt: mask[ind] = check_func(grade_l, grade_k, grade_m); keep the masked entries
    def gen_graded():
        f = find(layout, '_numba_construct_graded_mt')
        if [a.arg for a in f.args.args] != ['index_to_grade', 'coords', 'gmt_vals', 'check_func']:
            raise Refuse("parameters")
        loops = [st for st in f.body if isinstance(st, ast.For)]
        if len(loops) != 1 or ast.unparse(loops[0].iter) not in ('range(coords.shape[1])', 'range(n_elems)'):
            raise Refuse("loop is not over the entries")
        env = {}
        maskexpr = None
        for st in loops[0].body:
            if isinstance(st, ast.Assign) and isinstance(st.targets[0], ast.Tuple) and ast.unparse(st.value) == 'coords[:, ind]':
                names = [x.id for x in st.targets[0].elts]
                if len(names) != 3:
                    raise Refuse("coords[:, ind] is not unpacked into three names")
                env.update({names[0]: 'e.k', names[1]: 'e.l', names[2]: 'e.m'})
            elif isinstance(st, ast.Assign) and isinstance(st.targets[0], ast.Name) and isinstance(st.value, ast.Subscript) \
                    and ast.unparse(st.value.value) == 'index_to_grade' and isinstance(st.value.slice, ast.Name) and st.value.slice.id in env:
                env[st.targets[0].id] = f"((grade {env[st.value.slice.id]} : Nat) : Int)"
            elif isinstance(st, ast.Assign) and ast.unparse(st.targets[0]) == 'mask[ind]' and isinstance(st.value, ast.Call) \
                    and ast.unparse(st.value.func) == 'check_func' and all(isinstance(a, ast.Name) and a.id in env for a in st.value.args):
                maskexpr = "check " + " ".join(env[a.id] for a in st.value.args)
            else:
                raise Refuse(f"statement {ast.unparse(st)[:40]}")
        ret = [st for st in f.body if isinstance(st, ast.Return)]
        if maskexpr is None or len(ret) != 1 or ast.unparse(ret[0].value) != '(coords[:, mask], gmt_vals[mask])':
            raise Refuse("does not return (coords[:, mask], gmt_vals[mask])")
        txt = ("def construct_graded_mt (grade : Nat → Nat) (check : Int → Int → Int → Bool) (es : List Entry) : List Entry :=\n"
               f"  es.filter fun e => {maskexpr}\n")
        th = ("theorem construct_graded_mt_eq (grade : Nat → Nat) (check : Int → Int → Int → Bool) (es : List Model.Entry) : "
              "GenLoop.construct_graded_mt grade check es = Model.gradedMt grade check es := by\n"
              "  simp only [GenLoop.construct_graded_mt, Model.gradedMt]\n")
        return txt, th
    emit('construct_graded_mt', gen_graded)

    # ---- BasisVectorIds.tuple_as_sign_and_bitmap: a `for` loop over the tuple with an early `raise` (ids already resolved to positions)
    def gen_tuple():
        cls = [n for n in helpers.body if isinstance(n, ast.ClassDef) and n.name == 'BasisVectorIds'][0]
        f = [n for n in cls.body if isinstance(n, ast.FunctionDef) and n.name == 'tuple_as_sign_and_bitmap'][0]
        g = [n for n in cls.body if isinstance(n, ast.FunctionDef) and n.name == 'id_as_bitmap'][0]
        gsrc = [ast.unparse(s) for s in g.body if not (isinstance(s, ast.Expr) and isinstance(s.value, ast.Constant))]
        if len(gsrc) != 1 or not gsrc[0].startswith('try:\n    return 1 << self.values.index(id)\nexcept ValueError:'):
            raise Refuse("id_as_bitmap is not `1 << self.values.index(id)`")
        body = [s for s in f.body if not (isinstance(s, ast.Expr) and isinstance(s.value, ast.Constant))]
        if [a.arg for a in f.args.args] != ['self', 'blade']:
            raise Refuse("parameters")
        F = Fn(f, dict(b='Nat'))
        pre, names0 = F.lets(body[:2], "  ")
        if names0 != ['bitmap_out', 's']:
            raise Refuse("initialisation is not bitmap_out = 0; s = 1")
        F.types['s'] = 'Int'
        loop = body[2]
        if not (isinstance(loop, ast.For) and ast.unparse(loop.iter) == 'blade' and isinstance(loop.target, ast.Name)):
            raise Refuse("loop is not `for b in blade`")
        bv = loop.target.id
        F.types[bv] = 'Nat'
        lines = []
        for st in loop.body:
            if isinstance(st, ast.Assign) and ast.unparse(st.value) == f'self.id_as_bitmap({bv})':
                nm = st.targets[0].id
                F.types[nm] = 'Nat'
                lines.append(f"      let {nm} : Nat := (1 : Nat) <<< {bv}")
            elif isinstance(st, ast.If) and len(st.body) == 1 and isinstance(st.body[0], ast.Raise) and not st.orelse:
                t = st.test
                if F.ty(t) != 'Nat':
                    raise Refuse("raise condition is not an integer truth value")
                lines.append(f"      if {F.ex(t)} ≠ 0 then none else")
            else:
                txt, _ = F.lets([st], "      ")
                lines.append(txt)
        ret = body[3]
        if not (isinstance(ret, ast.Return) and ast.unparse(ret.value) == '(s, bitmap_out)'):
            raise Refuse("does not return (s, bitmap_out)")
        init_bm = [ast.unparse(s.value) for s in body[:2]]
        if init_bm != ['0', '1']:
            raise Refuse("initial values are not 0 and 1")
        txt = ("def tuple_loop : List Nat → Nat → Int → Option (Int × Nat)\n  | [], bitmap_out, s => some (s, bitmap_out)\n"
               f"  | {bv} :: rest, bitmap_out, s =>\n" + "\n".join(lines) + "\n      tuple_loop rest bitmap_out s\n"
               "def tuple_as_sign_and_bitmap (blade : List Nat) : Option (Int × Nat) := tuple_loop blade 0 1\n")
        th = ("theorem tuple_loop_eq (ps : List Nat) (bm : Nat) (s : Int) : GenLoop.tuple_loop ps bm s = Model.tupleLoop ps s bm := by\n"
              "  induction ps generalizing bm s with\n  | nil => simp [GenLoop.tuple_loop, Model.tupleLoop]\n"
              "  | cons p ps ih => simp only [GenLoop.tuple_loop, Model.tupleLoop, cre_eq, ih]\n\n"
              "theorem tuple_as_sign_and_bitmap_eq (ps : List Nat) : GenLoop.tuple_as_sign_and_bitmap ps = Model.tupleLoop ps 1 0 := by\n"
              "  simp only [GenLoop.tuple_as_sign_and_bitmap, tuple_loop_eq]\n")
        return txt, th
    if status.get('cre', {}).get('status') == 'ok':
        emit('tuple_as_sign_and_bitmap', gen_tuple)
    else:
        status['tuple_as_sign_and_bitmap'] = dict(status='refused', reason='cre was refused')

    out.append("end GenLoop\n\n")
    names = {}
    for name, t in thms:
        out.append(t + "\n")
    for name, t in thms:
        last = [l.split()[1] for l in t.splitlines() if l.startswith('theorem ')][-1]
        names[name] = last
        out.append(f"#print axioms {last}\n")
    if '--status' in sys.argv:
        sys.stderr.write(json.dumps(dict(status=status, theorems=names)))
    sys.stdout.write("".join(out))


if __name__ == '__main__':
    main()
