#!/usr/bin/env python3
"""Tie A, eleventh slice: small loops of clifford/_mvarray.py, clifford/_blademap.py and clifford/_frame.py (C18).

Recognised on the CURRENT source (anything else is REFUSED):

  MVArray.sum / gp / op:   out = self[0];  for k in self[1:]: out += k | out *= k | out = out ^ k;  return out
                           -> `foldLoop f` (a left fold from the first element; `none` on an empty array)
  BladeMap.__call__:       the direction test (layout1 -> b1,b2 / layout2 -> b2,b1 / else ValueError), the zero result of the target
                           layout, `for from_obj, to_obj in zip(from_b, to_b): B += sum(A.value*from_obj.value)*to_obj`
                           -> `Model.bladeMapApply`
  Frame.En / Frame.inv:    `reduce(op, self)`; `(-1)**k * reduce(op, hstack([self[:k], self[k+1:]])) * En.inv()` for k in range(len(self))
                           -> the expression of `C18.reciprocal_frame` (`sgn k • ((∧ of the others) * E⁻¹)`)
"""
import ast
import json
import sys
from pathlib import Path


class Refuse(Exception):
    pass


def method(tree, cls, name):
    c = [n for n in tree.body if isinstance(n, ast.ClassDef) and n.name == cls]
    if not c:
        raise Refuse(f"class {cls}")
    hits = [n for n in c[0].body if isinstance(n, ast.FunctionDef) and n.name == name]
    if not hits:
        raise Refuse(f"{cls}.{name} not found")
    return hits[-1], [s for s in hits[-1].body if not (isinstance(s, ast.Expr) and isinstance(s.value, ast.Constant))]


def main():
    repo = Path(sys.argv[sys.argv.index('--repo') + 1]) if '--repo' in sys.argv else Path('/repo')
    out = ["import Proofs.BladeMapP\nimport Proofs.Recip\nimport Model.Transform\n\n/-! GENERATED from the current source by translate/misc2lean.py — do not edit -/\n"
           "set_option linter.unusedVariables false\nnamespace GenMisc\nopen Model\n\n"]
    status, thms = {}, []

    def emit(name, gen, theorem):
        try:
            out.append(gen())
            thms.append((name, theorem))
            status[name] = dict(status='ok')
        except Refuse as r:
            status[name] = dict(status='refused', reason=str(r))
        except Exception as r:
            status[name] = dict(status='refused', reason=repr(r)[:200])

    def g_folds():
        tree = ast.parse((repo / 'clifford' / '_mvarray.py').read_text())
        txt = []
        for nm, upd, lean in (('sum', 'out += k', 'add'), ('gp', 'out *= k', 'mul'), ('op', 'out = out ^ k', 'wedge')):
            f, b = method(tree, 'MVArray', nm)
            src = [ast.unparse(s) for s in b]
            if src != ['out = self[0]', f'for k in self[1:]:\n    {upd}', 'return out']:
                raise Refuse(f"MVArray.{nm} is not `out = self[0]; for k in self[1:]: {upd}; return out`")
            txt.append(f"def mvarray_{nm} {{α : Type}} ({lean} : α → α → α) : List α → Option α\n  | [] => none\n  | x :: xs => some (xs.foldl (fun out k => {lean} out k) x)\n")
        return "".join(txt)
    emit('misc_mvarray_folds', g_folds,
         "theorem misc_mvarray_folds_eq {α : Type} (f : α → α → α) (l : List α) : GenMisc.mvarray_sum f l = BladeMapP.foldLoop f l "
         "∧ GenMisc.mvarray_gp f l = BladeMapP.foldLoop f l ∧ GenMisc.mvarray_op f l = BladeMapP.foldLoop f l := by\n"
         "  cases l <;> simp [GenMisc.mvarray_sum, GenMisc.mvarray_gp, GenMisc.mvarray_op, BladeMapP.foldLoop]\n")

    def g_blademap():
        tree = ast.parse((repo / 'clifford' / '_blademap.py').read_text())
        f, b = method(tree, 'BladeMap', '__call__')
        if len(b) != 4 or not isinstance(b[0], ast.If):
            raise Refuse("shape")
        d = b[0]
        if ast.unparse(d.test) != 'A.layout == self.layout1' or [ast.unparse(s) for s in d.body] != ['from_b = self.b1', 'to_b = self.b2']:
            raise Refuse("forward direction")
        e = d.orelse
        if len(e) != 1 or not isinstance(e[0], ast.If) or ast.unparse(e[0].test) != 'A.layout == self.layout2' \
                or [ast.unparse(s) for s in e[0].body] != ['from_b = self.b2', 'to_b = self.b1'] \
                or len(e[0].orelse) != 1 or not isinstance(e[0].orelse[0], ast.Raise):
            raise Refuse("backward direction / error branch")
        if ast.unparse(b[1]) != 'B = to_b[0]._newMV(dtype=int)':
            raise Refuse("result is not the zero multivector of the target layout")
        lp = b[2]
        if not (isinstance(lp, ast.For) and ast.unparse(lp.target) == '(from_obj, to_obj)' and ast.unparse(lp.iter) == 'zip(from_b, to_b)'
                and [ast.unparse(s) for s in lp.body] == ['B += sum(A.value * from_obj.value) * to_obj']):
            raise Refuse("accumulation loop")
        if ast.unparse(b[3]) != 'return B':
            raise Refuse("return B")
        return ("def blademap_call (dimsTo : Nat) (pairs : List (MV × MV)) (A : MV) : MV :=\n"
                "  pairs.foldl (fun B p =>\n    let dot : Rat := (List.range A.size).foldl (fun acc i => acc + A.getD i 0 * p.1.getD i 0) 0\n"
                "    (Array.range dimsTo).map fun r => B.getD r 0 + dot * p.2.getD r 0) (Array.replicate dimsTo 0)\n")
    emit('misc_blademap', g_blademap,
         "theorem misc_blademap_eq (dimsTo : Nat) (pairs : List (Model.MV × Model.MV)) (A : Model.MV) : "
         "GenMisc.blademap_call dimsTo pairs A = Model.bladeMapApply dimsTo pairs A := by\n  simp only [GenMisc.blademap_call, Model.bladeMapApply]\n")

    def g_frame():
        tree = ast.parse((repo / 'clifford' / '_frame.py').read_text())
        f, b = method(tree, 'Frame', 'En')
        if [ast.unparse(s) for s in b] != ['return reduce(op, self)']:
            raise Refuse("Frame.En is not reduce(op, self)")
        f, b = method(tree, 'Frame', 'inv')
        src = [ast.unparse(s) for s in b]
        if src[0] != 'En = self.En' or src[-1] != 'return Frame(vectors)':
            raise Refuse("Frame.inv prologue / epilogue")
        comp = b[1].value
        if not (isinstance(comp, ast.ListComp) and len(comp.generators) == 1 and ast.unparse(comp.generators[0].iter) == 'range(len(self))'
                and ast.unparse(comp.elt) == '(-1) ** k * reduce(op, np.hstack([self[:k], self[k + 1:]])) * En.inv()'):
            raise Refuse("Frame.inv is not [(-1)**k * reduce(op, hstack([self[:k], self[k+1:]])) * En.inv() for k in range(len(self))]")
        return ("variable {R : Type} [CommRing R] {n : Nat} {sig : Nat → R}\n"
                "noncomputable def frame_inv_k (vs : List (CMV n R)) (k : Nat) (Einv : Cl n sig) : Cl n sig :=\n"
                "  (sgn k : R) • ((asCl (wprod n (vs.take k ++ vs.drop (k + 1))) : Cl n sig) * Einv)\n")
    emit('misc_frame', g_frame,
         "theorem misc_frame_eq {R : Type} [CommRing R] {n : Nat} {sig : Nat → R} (pre post : List (CMV n R)) (a : CMV n R) (Einv : Cl n sig) : "
         "GenMisc.frame_inv_k (pre ++ a :: post) pre.length Einv = (sgn pre.length : R) • ((asCl (wprod n (pre ++ post)) : Cl n sig) * Einv) := by\n"
         "  simp [GenMisc.frame_inv_k]\n")

    out.append("end GenMisc\n\n")
    names = {}
    for name, t in thms:
        out.append(t + "\n")
    for name, t in thms:
        names[name] = t.split()[1]
        out.append(f"#print axioms {t.split()[1]}\n")
    if '--status' in sys.argv:
        sys.stderr.write(json.dumps(dict(status=status, theorems=names)))
    sys.stdout.write("".join(out))


if __name__ == '__main__':
    main()
