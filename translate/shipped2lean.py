#!/usr/bin/env python3
"""Tie A, twelfth slice: `up` / `down` of the other shipped models clifford/gac.py, clifford/dpga.py, clifford/dg3c.py (C08).

Read from the CURRENT source with `ast` (anything else is REFUSED):

  * the layout construction (`Cl(5, 3)`, `Layout(<signature list>, ids=BasisVectorIds(<id list>))`, `Layout(<signature list>)`):
    number of generators, signature, blade names -> generator indices;
  * the module-level constants `up` / `down` use (`n1 = e3 + e6`, `w1 = 0.5*(e1 + e1b)`, `einf1 = e4 + e5`, `IC1 = e12345`, …),
    translated to Lean terms over an arbitrary ℚ-algebra `A` with generators `e : Fin n → A`;
  * `up` and `down` themselves (and `up_cga1`, `up_cga2`, `down_cga1` of dg3c).

`^` and `|` are written by the half-sum formulas between a vector and a homogeneous element (theorems about the coded tables,
Proofs/Fund.lean), as in mv2lean.py; `(…)[()]` / `(…)[0]` reads the scalar coefficient (a functional `sc` with
`sc (q • 1) = q`), `.value[1:4]` reads the coefficients of the first three basis vectors (functionals `co i` dual to the generators).

Generated theorems (`gac_down_up`, `dpga_down_up`, `dg3c_down_up`): from the generator relations `Ship.Gens e sig` with the module's
signature alone, `down(up(x)) = x` for all rational coordinates — so in the model `Cl n sig` (`Ship.model_gens`) and in every other
algebra with these relations.  The proof scripts are fixed per module (normal-ordering `gens_nf` + `module`, and
`Ship.wedge_inner_vector` for dg3c); a semantic change of the source makes a script fail (broken obligation), an unrecognised
shape is refused.
"""
import ast
import json
import sys
from pathlib import Path

sys.path.insert(0, str(Path(__file__).resolve().parent))
from mv2lean import Tr, T, Refuse, num, neg_sign   # noqa: E402


def G(t, grade):
    t.grade = grade
    t.vec = (grade == 1)
    if grade is not None:
        t.sign = '(-1 : ℚ)' if grade % 2 else '(1 : ℚ)'
    return t


class STr(Tr):
    """mv2lean's expression translator + grades (so that `scalar-valued * vector` is a vector and `bivector | vector` is one),
    coefficient reads and calls of already translated module functions"""
    def __init__(self, env, funcs=None):
        super().__init__(env)
        self.funcs = funcs or {}

    @staticmethod
    def gr(t):
        return getattr(t, 'grade', 1 if t.vec else None)

    def mul(self, l, r):
        out = super().mul(l, r)
        gl, gr_ = self.gr(l), self.gr(r)
        if l.kind == 's' and r.kind == 'm':
            return G(out, gr_) if gr_ is not None else out
        if r.kind == 's' and l.kind == 'm':
            return G(out, gl) if gl is not None else out
        if l.kind == 'm' and r.kind == 'm':
            if l is r and gl == 1:
                return G(out, 0)                  # v*v for a vector is a scalar multiple of 1
            if gl == 0 and gr_ is not None:
                return G(out, gr_)
            if gr_ == 0 and gl is not None:
                return G(out, gl)
        return out

    def div(self, l, r):
        out = super().div(l, r)
        g = self.gr(l)
        return G(out, g) if (l.kind == 'm' and g is not None) else out

    def addsub(self, l, r, plus):
        out = super().addsub(l, r, plus)
        if l.kind == 'm' and r.kind == 'm' and self.gr(l) is not None and self.gr(l) == self.gr(r):
            return G(out, self.gr(l))
        return out

    def tr(self, e):
        if isinstance(e, ast.Subscript):
            sl = ast.unparse(e.slice)
            t = self.tr(e.value)
            if t.kind == 'm' and sl in ('()', '0'):
                return T(f"(sc {t.lean})", 's')
            raise Refuse(f"subscript {ast.unparse(e)}")
        if isinstance(e, ast.Call) and isinstance(e.func, ast.Name) and e.func.id in self.funcs:
            return self.funcs[e.func.id]([a for a in e.args])
        if isinstance(e, ast.UnaryOp) and isinstance(e.op, ast.USub):
            t = self.tr(e.operand)
            out = T(f"(-{t.lean})", t.kind, t.vec, t.sign)
            g = self.gr(t)
            return G(out, g) if (t.kind == 'm' and g is not None) else out
        if isinstance(e, ast.BinOp) and isinstance(e.op, (ast.BitOr, ast.BitXor)):
            l, r = self.tr(e.left), self.tr(e.right)
            gl, gr_ = self.gr(l), self.gr(r)
            if l.kind == 'm' and r.kind == 'm' and gl is not None and gr_ is not None and (gl == 1 or gr_ == 1):
                plus = isinstance(e.op, ast.BitXor)
                other = r if gl == 1 else l
                if gl == 1 and gr_ == 1:
                    other = r
                sign = '(-1 : ℚ)' if self.gr(other) % 2 else '(1 : ℚ)'
                out = T(self.half(l.lean, r.lean, sign, plus), 'm')
                go = self.gr(other)
                if plus:
                    return G(out, go + 1)
                if go == 0:
                    raise Refuse("inner product with a scalar-valued element")
                return G(out, go - 1)
            raise Refuse(f"`{ast.unparse(e)}`: operands of unknown grade")
        return super().tr(e)


def safe_eval(node):
    return eval(compile(ast.Expression(node), '<layout>', 'eval'), {'__builtins__': {}, 'range': range})


def layout_of(tree):
    """-> (n, signature list, {blade name: [generator indices]} resolver)"""
    sig = ids = None
    for st in tree.body:
        if isinstance(st, ast.Assign) and isinstance(st.value, ast.Call):
            fn = ast.unparse(st.value.func)
            tg = ast.unparse(st.targets[0])
            if fn == 'Cl' and tg in ('layout, blades', '(layout, blades)'):
                a = [safe_eval(x) for x in st.value.args]
                if len(a) != 2 or st.value.keywords:
                    raise Refuse("Cl(p, q) expected")
                sig = [1] * a[0] + [-1] * a[1]
                ids = [str(i + 1) for i in range(len(sig))]
            elif fn == 'Layout' and tg == 'layout':
                sig = [int(v) for v in safe_eval(st.value.args[0])]
                ids = [str(i + 1) for i in range(len(sig))]
                for kw in st.value.keywords:
                    if kw.arg == 'ids' and isinstance(kw.value, ast.Call) and ast.unparse(kw.value.func) == 'BasisVectorIds':
                        ids = [str(v) for v in safe_eval(kw.value.args[0])]
                    else:
                        raise Refuse(f"Layout keyword {kw.arg}")
                if len(st.value.args) != 1:
                    raise Refuse("Layout(sig, …)")
    if sig is None or len(ids) != len(sig) or any(s not in (1, -1) for s in sig):
        raise Refuse("layout construction not recognised")

    def blade(name):
        """'e' + concatenated ids in ascending generator order -> list of generator indices, or None"""
        if not name.startswith('e') or len(name) < 2:
            return None
        rest, out, start = name[1:], [], 0
        while rest:
            hit = None
            for k in range(start, len(ids)):
                if rest.startswith(ids[k]):
                    # prefer the longest id at this position (ids like '1' and '10')
                    if hit is None or len(ids[k]) > len(ids[hit]):
                        hit = k
            if hit is None:
                return None
            out.append(hit)
            rest = rest[len(ids[hit]):]
            start = hit + 1
        return out
    return len(sig), sig, blade


class Module:
    def __init__(self, repo, name):
        self.name = name
        self.tree = ast.parse((repo / 'clifford' / f'{name}.py').read_text())
        self.n, self.sig, self.blade = layout_of(self.tree)
        self.consts = {}
        for st in self.tree.body:
            if isinstance(st, ast.Assign) and len(st.targets) == 1 and isinstance(st.targets[0], ast.Name):
                self.consts[st.targets[0].id] = st.value      # the last assignment wins, as in Python
        self.funcs = {f.name: f for f in self.tree.body if isinstance(f, ast.FunctionDef)}
        self.defs = []          # Lean text of constant definitions, in dependency order
        self.cenv = {}

    def const(self, nm):
        """T of a module-level name: a blade name or a translated constant (emitted once as a Lean def)"""
        if nm in self.cenv:
            return self.cenv[nm]
        if nm in self.consts and nm not in ('layout', 'blades'):
            val = self.consts[nm]
            tr = STr(self.lazy_env(val))
            t = tr.tr(val)
            if t.kind != 'm':
                raise Refuse(f"module constant {nm} is not a multivector")
            self.defs.append(f"def {self.name}_{nm} (e : Fin {self.n} → A) : A := {t.lean}\n")
            out = T(f"({self.name}_{nm} e)", 'm', t.vec, t.sign)
            g = STr.gr(t)
            if g is not None:
                G(out, g)
            self.cenv[nm] = out
            return out
        idx = self.blade(nm)
        if idx:
            lean = " * ".join(f"e {k}" for k in idx)
            out = G(T(f"({lean})", 'm'), len(idx))
            self.cenv[nm] = out
            return out
        raise Refuse(f"unbound name {nm}")

    def lazy_env(self, node, extra=None):
        env = dict(extra or {})
        for x in ast.walk(node):
            if isinstance(x, ast.Name) and x.id not in env and x.id not in ('np',) and x.id not in self.funcs:
                try:
                    env[x.id] = self.const(x.id)
                except Refuse:
                    pass
        return env

    def body(self, fname):
        if fname not in self.funcs:
            raise Refuse(f"{self.name}.{fname} not found")
        f = self.funcs[fname]
        return f, [s for s in f.body if not (isinstance(s, ast.Expr) and isinstance(s.value, ast.Constant))]

    def header(self):
        return (f"section {self.name.capitalize()}\nvariable {{A : Type}} [Ring A] [Algebra ℚ A]\n")

    def sig_hyps(self):
        return " ".join(f"(h{i} : sig {i} = {s})" for i, s in enumerate(self.sig))

    def sig_names(self):
        return ", ".join(f"h{i}" for i in range(self.n))

    def const_names(self):
        return ", ".join(f"{self.name}_{k}" for k in self.cenv if f"def {self.name}_{k} " in "".join(self.defs))


SC = "(sc : A → ℚ) (hsc : ∀ q : ℚ, sc (q • (1 : A)) = q)"


def scalar(nm):
    return T(nm, 's')



def model_corollary(m, name, params, lhs_args, rhs, co=False):
    """the generated theorem instantiated in the model Cl n sig (non-vacuity, and the statement about the concrete algebra)"""
    n = m.n
    siglist = "[" + ", ".join(str(s_) for s_ in m.sig) + "]"
    sigf = f"(fun i => ({siglist} : List ℚ).getD i 0)"
    E = f"(fun i : Fin {n} => (Cl.e i.val i.isLt : Cl {n} {sigf}))"
    hs = " ".join("rfl" for _ in range(n))
    extra = " Ship.coModel Ship.coModel_e" if co else ""
    call_extra = " Ship.coModel" if co else ""
    return (f"open GenShip in\ntheorem {name}_model {params} :\n"
            f"    GenShip.{m.name}_down {E} Ship.scModel{call_extra} (GenShip.{m.name}_up {E} {lhs_args}) = {rhs.replace('E!', E)} :=\n"
            f"  {name} {E} (fun i => {sigf} i.val) (Ship.model_gens {n} {sigf}) {hs} Ship.scModel Ship.scModel_smul_one{extra} {lhs_args}\n")


def gen_gac(repo):
    m = Module(repo, 'gac')
    f, b = m.body('up')
    if [ast.unparse(s) for s in b[:2]] != ['a = x[e1]', 'b = x[e2]'] or len(b) != 3 or not isinstance(b[2], ast.Return):
        raise Refuse("gac.up is not `a = x[e1]; b = x[e2]; return …`")
    if m.blade('e1') != [0] or m.blade('e2') != [1]:
        raise Refuse("e1, e2 are not the first two generators")
    up = STr(m.lazy_env(b[2].value, dict(a=scalar('a'), b=scalar('b')))).tr(b[2].value)
    if STr.gr(up) != 1:
        raise Refuse("gac.up does not return a vector")
    f, d = m.body('down')
    if len(d) != 1 or not isinstance(d[0], ast.Return) or [a.arg for a in f.args.args] != ['x']:
        raise Refuse("gac.down is not a single return of x")
    reads = [n_ for n_ in ast.walk(d[0].value) if isinstance(n_, ast.Subscript)]
    if len(reads) != 2:
        raise Refuse("gac.down: two coefficient reads expected")
    X = G(T("x", 'm'), 1)
    down = STr(m.lazy_env(d[0].value, dict(x=X))).tr(d[0].value)
    Xup = G(T("(gac_up e a b)", 'm'), 1)
    inner = [STr(m.lazy_env(r.value, dict(x=Xup))).tr(r.value).lean for r in reads]
    cn = m.const_names()
    txt = (m.header() + "".join(m.defs) +
           f"def gac_up (e : Fin {m.n} → A) (a b : ℚ) : A := {up.lean}\n"
           f"def gac_down (e : Fin {m.n} → A) (sc : A → ℚ) (x : A) : A := {down.lean}\n"
           f"end Gac\n")
    want = ['a', 'b']
    steps = "".join(
        f"  have r{i} : {inner[i]} = ({want[i]} : ℚ) • (1 : A) := by\n    simp only [gac_up, {cn}]\n    gens_nf G\n"
        f"    try simp only [{m.sig_names()}]\n    module\n" for i in range(2))
    th = (f"open GenShip in\ntheorem gac_down_up {{A : Type}} [Ring A] [Algebra ℚ A] (e : Fin {m.n} → A) (sig : Fin {m.n} → ℚ) (G : Ship.Gens e sig)\n"
          f"    {m.sig_hyps()} {SC} (a b : ℚ) :\n"
          f"    GenShip.gac_down e sc (GenShip.gac_up e a b) = a • e 0 + b • e 1 := by\n" +
          steps +
          f"  simp only [GenShip.gac_down, r0, r1, hsc]\n")
    th += "\n" + model_corollary(m, 'gac_down_up', '(a b : ℚ)', 'a b', 'a • E! 0 + b • E! 1')
    return txt, th


def gen_dpga(repo):
    m = Module(repo, 'dpga')
    f, b = m.body('up')
    if len(b) != 2 or ast.unparse(b[0]) not in ('x, y, z = threedDvec', '(x, y, z) = threedDvec') or not isinstance(b[1], ast.Return):
        raise Refuse("dpga.up is not `x, y, z = threedDvec; return …`")
    sc3 = dict(x=scalar('x'), y=scalar('y'), z=scalar('z'))
    up = STr(m.lazy_env(b[1].value, sc3)).tr(b[1].value)
    if STr.gr(up) != 1:
        raise Refuse("dpga.up does not return a vector")
    f, d = m.body('down')
    if len(d) != 1 or not isinstance(d[0], ast.Return) or [a.arg for a in f.args.args] != ['pnt']:
        raise Refuse("dpga.down shape")
    v = d[0].value
    if not (isinstance(v, ast.BinOp) and isinstance(v.op, ast.Div) and isinstance(v.left, ast.Call) and ast.unparse(v.left.func) == 'np.array'
            and len(v.left.args) == 1 and isinstance(v.left.args[0], ast.ListComp) and len(v.left.args[0].generators) == 1):
        raise Refuse("dpga.down is not np.array([… for wis in […]]) / (…)")
    comp = v.left.args[0]
    gen = comp.generators[0]
    if not (isinstance(gen.target, ast.Name) and isinstance(gen.iter, ast.List) and all(isinstance(x, ast.Name) for x in gen.iter.elts) and not gen.ifs):
        raise Refuse("dpga.down comprehension")
    var = gen.target.id
    if len(gen.iter.elts) != 3:
        raise Refuse("dpga.down: three coordinates expected")

    def elt(pt, wname):
        env = m.lazy_env(comp.elt, {'pnt': pt})
        env[var] = m.const(wname)
        return STr(env).tr(comp.elt)

    def den(pt):
        return STr(m.lazy_env(v.right, {'pnt': pt})).tr(v.right)
    P = G(T("pnt", 'm'), 1)
    comps = [elt(P, x.id) for x in gen.iter.elts]
    dn = den(P)
    if any(c.kind != 's' for c in comps) or dn.kind != 's':
        raise Refuse("dpga.down: coefficient reads expected")
    Pup = G(T("(dpga_up e x y z)", 'm'), 1)
    inner = [elt(Pup, x.id).lean for x in gen.iter.elts] + [den(Pup).lean]
    # strip the outer `(sc …)` to get the element the read is applied to
    inner = [s[len("(sc "):-1] for s in inner]
    cn = m.const_names()
    txt = (m.header() + "".join(m.defs) +
           f"def dpga_up (e : Fin {m.n} → A) (x y z : ℚ) : A := {up.lean}\n"
           f"def dpga_down (e : Fin {m.n} → A) (sc : A → ℚ) (pnt : A) : List ℚ := [{', '.join(c.lean for c in comps)}].map (· / {dn.lean})\n"
           f"end Dpga\n")
    want = ['x / 2', 'y / 2', 'z / 2', '1 / 2']
    steps = "".join(
        f"  have r{i} : {inner[i]} = ({want[i]} : ℚ) • (1 : A) := by\n    simp only [dpga_up, {cn}]\n    gens_nf G\n"
        f"    try simp only [{m.sig_names()}]\n    module\n" for i in range(4))
    th = (f"open GenShip in\ntheorem dpga_down_up {{A : Type}} [Ring A] [Algebra ℚ A] (e : Fin {m.n} → A) (sig : Fin {m.n} → ℚ) (G : Ship.Gens e sig)\n"
          f"    {m.sig_hyps()} {SC} (x y z : ℚ) :\n"
          f"    GenShip.dpga_down e sc (GenShip.dpga_up e x y z) = [x, y, z] := by\n" +
          steps +
          f"  simp only [GenShip.dpga_down, r0, r1, r2, r3, hsc, List.map]\n"
          f"  congr 1 <;> [skip; congr 1 <;> [skip; congr 1]] <;> ring\n")
    th += "\n" + model_corollary(m, 'dpga_down_up', '(x y z : ℚ)', 'x y z', '[x, y, z]')
    return txt, th


def gen_dg3c(repo):
    m = Module(repo, 'dg3c')
    sc3 = dict(x=scalar('x'), y=scalar('y'), z=scalar('z'))
    ups = {}
    for fn in ('up_cga1', 'up_cga2'):
        f, b = m.body(fn)
        if len(b) != 3 or ast.unparse(b[0]) not in ('x, y, z = pnt_vector', '(x, y, z) = pnt_vector') \
                or not (isinstance(b[1], ast.Assign) and ast.unparse(b[1].targets[0]) == 'euc_point') or not isinstance(b[2], ast.Return):
            raise Refuse(f"dg3c.{fn} shape")
        euc = STr(m.lazy_env(b[1].value, sc3)).tr(b[1].value)
        if STr.gr(euc) != 1:
            raise Refuse(f"dg3c.{fn}: euc_point is not a vector")
        eucT = G(T(f"(dg3c_{fn}_euc e x y z)", 'm'), 1)
        t = STr(m.lazy_env(b[2].value, dict(sc3, euc_point=eucT))).tr(b[2].value)
        if STr.gr(t) != 1:
            raise Refuse(f"dg3c.{fn} does not return a vector")
        ups[fn] = (euc.lean, t.lean)
    f, b = m.body('up')
    if len(b) != 1 or ast.unparse(b[0]) != 'return up_cga1(pnt_vector) ^ up_cga2(pnt_vector)':
        raise Refuse("dg3c.up is not up_cga1(pnt_vector) ^ up_cga2(pnt_vector)")
    P1 = G(T("(dg3c_up_cga1 e x y z)", 'm'), 1)
    P2 = G(T("(dg3c_up_cga2 e x y z)", 'm'), 1)
    wed = ast.parse('P1 ^ P2', mode='eval').body
    upT = STr(dict(P1=P1, P2=P2)).tr(wed)
    f, b = m.body('down')
    if len(b) != 2 or not (isinstance(b[0], ast.Assign) and ast.unparse(b[0].targets[0]) == 'cga_pnt') or ast.unparse(b[1]) != 'return down_cga1(cga_pnt)' \
            or [a.arg for a in f.args.args] != ['dcga_point']:
        raise Refuse("dg3c.down shape")
    Dp = G(T("D", 'm'), 2)
    cga = STr(m.lazy_env(b[0].value, dict(dcga_point=Dp))).tr(b[0].value)
    # its first stage (D | einf2), needed by the proof script
    stage = b[0].value
    if not (isinstance(stage, ast.BinOp) and isinstance(stage.op, ast.Mult) and isinstance(stage.left, ast.BinOp) and isinstance(stage.left.op, ast.BitOr)
            and isinstance(stage.left.left, ast.BinOp) and isinstance(stage.left.left.op, ast.BitOr) and ast.unparse(stage.left.left.left) == 'dcga_point'):
        raise Refuse("dg3c.down: cga_pnt is not ((dcga_point | c) | I) * I")
    cname = ast.unparse(stage.left.left.right)
    Dup = G(T("(dg3c_up e x y z)", 'm'), 2)
    first = STr(m.lazy_env(stage.left.left, dict(dcga_point=Dup))).tr(stage.left.left)
    f, b = m.body('down_cga1')
    if len(b) != 1 or not isinstance(b[0], ast.Return) or [a.arg for a in f.args.args] != ['point_cga1']:
        raise Refuse("dg3c.down_cga1 shape")
    v = b[0].value
    if not (isinstance(v, ast.Subscript) and ast.unparse(v.slice) == '1:4' and isinstance(v.value, ast.Attribute) and v.value.attr == 'value'):
        raise Refuse("dg3c.down_cga1 does not read .value[1:4]")
    pt = G(T("p", 'm'), 1)
    q = STr(m.lazy_env(v.value.value, dict(point_cga1=pt))).tr(v.value.value)
    if q.kind != 'm':
        raise Refuse("down_cga1 quotient")
    ptu = G(T("(dg3c_up_cga1 e x y z)", 'm'), 1)
    dens = [n_ for n_ in ast.walk(v.value.value) if isinstance(n_, ast.Subscript)]
    if len(dens) != 1:
        raise Refuse("down_cga1: one coefficient read expected")
    dinner = STr(m.lazy_env(dens[0].value, dict(point_cga1=ptu))).tr(dens[0].value).lean
    c = m.const(cname)
    cn = m.const_names()
    n = m.n
    txt = (m.header() + "".join(m.defs) +
           f"def dg3c_up_cga1_euc (e : Fin {n} → A) (x y z : ℚ) : A := {ups['up_cga1'][0]}\n"
           f"def dg3c_up_cga1 (e : Fin {n} → A) (x y z : ℚ) : A := {ups['up_cga1'][1]}\n"
           f"def dg3c_up_cga2_euc (e : Fin {n} → A) (x y z : ℚ) : A := {ups['up_cga2'][0]}\n"
           f"def dg3c_up_cga2 (e : Fin {n} → A) (x y z : ℚ) : A := {ups['up_cga2'][1]}\n"
           f"def dg3c_up (e : Fin {n} → A) (x y z : ℚ) : A := {upT.lean}\n"
           f"def dg3c_cga_pnt (e : Fin {n} → A) (D : A) : A := {cga.lean}\n"
           f"def dg3c_down_cga1 (e : Fin {n} → A) (sc : A → ℚ) (co : Fin {n} → A →ₗ[ℚ] ℚ) (p : A) : List ℚ :=\n"
           f"  [co 0 {q.lean}, co 1 {q.lean}, co 2 {q.lean}]\n"
           f"def dg3c_down (e : Fin {n} → A) (sc : A → ℚ) (co : Fin {n} → A →ₗ[ℚ] ℚ) (D : A) : List ℚ := dg3c_down_cga1 e sc co (dg3c_cga_pnt e D)\n"
           f"end Dg3c\n")
    unf = f"dg3c_up_cga1, dg3c_up_cga2, dg3c_up_cga1_euc, dg3c_up_cga2_euc, {cn}"
    fin = f"  gens_nf G\n  try simp only [{m.sig_names()}]\n  module\n"
    hdr = (f"{{A : Type}} [Ring A] [Algebra ℚ A] (e : Fin {n} → A) (sig : Fin {n} → ℚ) (G : Ship.Gens e sig)\n"
           f"    {m.sig_hyps()}")
    hargs = "e sig G " + " ".join(f"h{i}" for i in range(n))
    lin = ("x • e 0 + y • e 1 + z • e 2 + ((x * x + y * y + z * z) / 2 - 1 / 2 : ℚ) • e 3 + ((x * x + y * y + z * z) / 2 + 1 / 2 : ℚ) • e 4")
    lemmas = (
        f"/-- `up_cga1` in coordinates -/\n"
        f"theorem dg3c_hL {hdr} (x y z : ℚ) :\n    dg3c_up_cga1 e x y z = {lin} := by\n  simp only [{unf}]\n" + fin +
        f"theorem dg3c_hA {hdr} (x y z : ℚ) :\n    dg3c_up_cga1 e x y z * {c.lean} = -({c.lean} * dg3c_up_cga1 e x y z) := by\n"
        f"  rw [dg3c_hL {hargs}]\n  simp only [{cn}]\n" + fin +
        f"theorem dg3c_hB {hdr} (x y z : ℚ) :\n    dg3c_up_cga2 e x y z * {c.lean} + {c.lean} * dg3c_up_cga2 e x y z = (-2 : ℚ) • (1 : A) := by\n"
        f"  simp only [{unf}]\n" + fin +
        f"theorem dg3c_hD {hdr} (x y z : ℚ) :\n    {first.lean} = -(dg3c_up_cga1 e x y z) := by\n"
        f"  simp only [dg3c_up]\n  rw [Ship.wedge_inner_vector _ _ _ (-2) (dg3c_hA {hargs} x y z) (dg3c_hB {hargs} x y z)]\n  norm_num\n"
        f"theorem dg3c_hP {hdr} (x y z : ℚ) :\n    dg3c_cga_pnt e (dg3c_up e x y z) = dg3c_up_cga1 e x y z := by\n"
        f"  simp only [dg3c_cga_pnt]\n  rw [dg3c_hD {hargs} x y z, dg3c_hL {hargs}]\n  simp only [{cn}]\n" + fin +
        f"theorem dg3c_hden {hdr} (x y z : ℚ) :\n    {dinner} = (-1 : ℚ) • (1 : A) := by\n"
        f"  rw [dg3c_hL {hargs}]\n  simp only [{cn}]\n" + fin)
    txt = txt.replace("end Dg3c\n", lemmas + "end Dg3c\n")
    th = (f"open GenShip in\ntheorem dg3c_down_up {hdr} {SC}\n"
          f"    (co : Fin {n} → A →ₗ[ℚ] ℚ) (hco : ∀ i j, co i (e j) = if i = j then 1 else 0) (x y z : ℚ) :\n"
          f"    GenShip.dg3c_down e sc co (GenShip.dg3c_up e x y z) = [x, y, z] := by\n"
          f"  simp only [GenShip.dg3c_down, GenShip.dg3c_down_cga1, dg3c_hP {hargs} x y z, dg3c_hden {hargs} x y z, hsc]\n"
          f"  rw [dg3c_hL {hargs}]\n"
          f"  simp [hco]\n")
    th += "\n" + model_corollary(m, 'dg3c_down_up', '(x y z : ℚ)', 'x y z', '[x, y, z]', co=True)
    return txt, th


def main():
    repo = Path(sys.argv[sys.argv.index('--repo') + 1]) if '--repo' in sys.argv else Path('/repo')
    out = ["import Proofs.Shipped\n\n/-! GENERATED from the current source by translate/shipped2lean.py — do not edit -/\n"
           "set_option linter.unusedVariables false\nset_option linter.unusedSimpArgs false\nopen Ship\nnamespace GenShip\n\n"]
    status, thms = {}, []
    for key, gen in (('gac_down_up', gen_gac), ('dpga_down_up', gen_dpga), ('dg3c_down_up', gen_dg3c)):
        try:
            txt, th = gen(repo)
            out.append(txt + "\n")
            thms.append((key, th))
            status[key] = dict(status='ok')
        except Refuse as r:
            status[key] = dict(status='refused', reason=str(r))
        except Exception as r:
            status[key] = dict(status='refused', reason=repr(r)[:200])
    out.append("end GenShip\n\n")
    names = {}
    for name, t in thms:
        out.append(t + "\n")
    for name, t in thms:
        names[name] = name
        names[name + '_model'] = name + '_model'
        out.append(f"#print axioms {name}\n#print axioms {name}_model\n")
    if '--status' in sys.argv:
        sys.stderr.write(json.dumps(dict(status=status, theorems=names)))
    sys.stdout.write("".join(out))


if __name__ == '__main__':
    main()
